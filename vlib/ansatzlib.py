"""Factory for every built-in ansatz (shared by C07, C08, C12, C13)."""
import warnings

import numpy as np

KINDS = ["UCCSD", "UCC1", "UCC3", "UpCCGSD1", "UpCCGSD2", "UpCCGSD3", "UpCCGSD4", "UCCGD", "HEA", "QMF", "QCC", "ILC",
         "VSQS1", "VSQS2", "VSQSnav", "VSQSnav2", "VSQSnav0", "pUCCD", "ADAPT", "VarCircuit"]
EXCITATION_BASED = {"UCCSD", "UCC1", "UCC3", "UpCCGSD1", "UpCCGSD2", "UpCCGSD3", "UpCCGSD4", "UCCGD", "pUCCD", "ADAPT"}
PARTICLE_CONSERVING = {"UCCSD", "UCC1", "UCC3", "UpCCGSD1", "UpCCGSD2", "UpCCGSD3", "UCCGD", "ADAPT"}


def applicable(kind, mol, mapping, utd):
    """Can this ansatz be instantiated for the molecule / encoding?"""
    closed = (mol.spin == 0 and not mol.uhf)
    if kind in ("UCC1", "UCC3"):
        return closed and mol.n_active_sos == 4 and mol.n_active_electrons == 2 and mapping == "JW" and not utd
    if kind == "pUCCD":
        return closed and mapping == "HCB"
    if mapping == "HCB":
        return False
    if kind.startswith("UpCCGSD") or kind == "UCCGD":
        return not mol.uhf and not (mapping == "SCBK" and mol.spin != 0)
    if kind in ("QMF", "QCC", "ILC"):
        return not mol.uhf
    if kind.startswith("VSQS"):
        return not mol.uhf and mol.n_active_sos == mol.n_sos
    if kind == "ADAPT":
        return not mol.uhf
    if kind == "UCCSD":
        return True
    return not mol.uhf


def make(kind, mol, mapping="JW", utd=False, pr=None):
    """Fresh ansatz object.  For ADAPT the returned object already contains a few pool operators."""
    import tangelo.toolboxes.ansatz_generator as ag
    from tangelo.linq import Circuit, Gate
    with warnings.catch_warnings():
        warnings.simplefilter("ignore")
        if kind == "UCCSD":
            return ag.UCCSD(mol, mapping, utd)
        if kind in ("UCC1", "UCC3"):
            return ag.RUCC(1 if kind == "UCC1" else 3)
        if kind.startswith("UpCCGSD"):
            return ag.UpCCGSD(mol, mapping, utd, k=int(kind[-1]))
        if kind == "UCCGD":
            return ag.UCCGD(mol, mapping, utd)
        if kind == "HEA":
            return ag.HEA(mol, mapping, utd, n_layers=2, rot_type="euler")
        if kind == "QMF":
            return ag.QMF(mol, mapping, utd)
        if kind == "QCC":
            return ag.QCC(mol, mapping, utd, max_qcc_gens=3)
        if kind == "ILC":
            return ag.ILC(mol, mapping, utd, max_ilc_gens=3)
        if kind in ("VSQS1", "VSQS2"):
            return ag.VSQS(mol, mapping, utd, intervals=3, time=0.7, trotter_order=1 if kind == "VSQS1" else 2)
        if kind == "VSQSnav0":
            # a navigator Hamiltonian obtained as a product: cancelling cross terms leave a Pauli word with an exactly zero coefficient
            from tangelo.toolboxes.operators import QubitOperator
            from tangelo.toolboxes.qubit_mappings.mapping_transform import get_qubit_number
            nq = get_qubit_number(mapping, mol.n_active_sos)
            base = QubitOperator(((0, "X"),), 0.5) + QubitOperator(((0, "Z"),), 0.5) + QubitOperator(((nq - 1, "X"),), 0.3)
            nav = base * base
            return ag.VSQS(mol, mapping, utd, intervals=3, time=0.6, h_nav=nav, trotter_order=1 if nq % 2 else 2)
        if kind in ("VSQSnav", "VSQSnav2"):
            from tangelo.toolboxes.operators import QubitOperator
            from tangelo.toolboxes.qubit_mappings.mapping_transform import get_qubit_number
            nq = get_qubit_number(mapping, mol.n_active_sos)
            nav = QubitOperator(((0, "X"),), 0.3) + QubitOperator(((nq - 1, "Y"), (0, "Z")) if nq > 1 else ((0, "Y"),), -0.2)
            if kind == "VSQSnav2":
                nav += QubitOperator(((nq - 1, "X"),), 0.15)
                return ag.VSQS(mol, mapping, utd, intervals=3, time=0.6, h_nav=nav, trotter_order=2)
            return ag.VSQS(mol, mapping, utd, intervals=2, time=0.5, h_nav=nav)
        if kind == "pUCCD":
            return ag.pUCCD(mol)
        if kind == "VarCircuit":
            n = 3
            gs = [Gate("H", 0), Gate("RY", 0, parameter=0.1, is_variational=True), Gate("CNOT", 1, control=0),
                  Gate("RZ", 1, parameter=0.2, is_variational=True), Gate("CRX", 2, control=1, parameter=0.3, is_variational=True),
                  Gate("RX", 2, parameter=1.0), Gate("PHASE", 2, parameter=0.4, is_variational=True)]
            return ag.VariationalCircuitAnsatz(Circuit(gs, n_qubits=n))
        if kind == "ADAPT":
            from tangelo.algorithms.variational import ADAPTSolver
            s = ADAPTSolver({"molecule": mol, "qubit_mapping": mapping, "up_then_down": utd, "max_cycles": 1})
            s.build()
            ans = s.ansatz
            ans.build_circuit()
            idx = list(range(len(s.pool_operators)))
            (pr.shuffle(idx) if pr is not None else None)
            for k in idx[:3]:
                ans.add_operator(s.pool_operators[k], s.fermionic_operators[k])
            return ans
    raise KeyError(kind)


def rand_params(pr, n, style):
    if style == "uniform":
        return [pr.uniform(-1.5, 1.5) for _ in range(n)]
    if style == "big":
        return [pr.uniform(-8, 8) for _ in range(n)]
    if style == "tiny":
        return [pr.choice([1e-9, -1e-9]) for _ in range(n)]
    if style == "zeros":
        return [0.0] * n
    if style == "one_zero":
        v = [pr.uniform(-1.5, 1.5) for _ in range(n)]
        if n:
            v[pr.randrange(n)] = 0.0
        return v
    if style == "some_zero":
        return [0.0 if pr.random() < 0.5 else pr.uniform(-1.5, 1.5) for _ in range(n)]
    if style == "repeat":
        x = pr.uniform(-1.5, 1.5)
        return [x] * n
    if style == "neg":
        return [-abs(pr.uniform(0.1, 1.5)) for _ in range(n)]
    raise KeyError(style)


STYLES = ["uniform", "uniform", "big", "tiny", "zeros", "one_zero", "some_zero", "repeat", "neg"]
