"""Reference Fock-space algebra, built by bit manipulation (no qubit mapping involved).

Basis: occupation-number vectors |n_0 n_1 ... n_{M-1}>, index = sum n_p 2^{M-1-p} (mode 0 is the
most significant bit - the same convention as vlib.refsim uses for qubits, so the Jordan-Wigner
image of a Fock matrix is the same matrix).  a_p |..n_p..> = (-1)^{sum_{q<p} n_q} n_p |..0..>.
"""
import itertools

import numpy as np


def lower(p, M):
    d = 2 ** M
    m = np.zeros((d, d), dtype=complex)
    for i in range(d):
        bit = (i >> (M - 1 - p)) & 1
        if bit:
            sign = 1
            for q in range(p):
                if (i >> (M - 1 - q)) & 1:
                    sign = -sign
            j = i & ~(1 << (M - 1 - p))
            m[j, i] = sign
    return m


_cache = {}


def ladder(p, dagger, M):
    key = (p, dagger, M)
    if key not in _cache:
        a = lower(p, M)
        _cache[key] = a.conj().T.copy() if dagger else a
    return _cache[key]


def fermion_terms_matrix(terms, M):
    """terms: {((p, 1|0), ...): coeff} (openfermion convention: 1 = creation)."""
    d = 2 ** M
    if M >= 8:
        # sparse accumulation (each ladder operator has one entry per row): the dense product costs d^3 per factor
        import scipy.sparse as sp
        key = ("sparse", M)
        if key not in _cache:
            _cache[key] = {(p, dg): sp.csr_matrix(ladder(p, dg, M)) for p in range(M) for dg in (False, True)}
        lad = _cache[key]
        acc = sp.csr_matrix((d, d), dtype=complex)
        eye = sp.identity(d, dtype=complex, format="csr")
        for term, c in terms.items():
            m = eye
            for p, dag in term:
                m = m @ lad[(p, bool(dag))]
            acc = acc + complex(c) * m
        return np.asarray(acc.todense())
    out = np.zeros((d, d), dtype=complex)
    for term, c in terms.items():
        m = np.eye(d, dtype=complex)
        for p, dag in term:
            m = m @ ladder(p, bool(dag), M)
        out = out + complex(c) * m
    return out


def occupations(i, M):
    return [(i >> (M - 1 - p)) & 1 for p in range(M)]


def index_of(occ):
    M = len(occ)
    return sum(int(b) << (M - 1 - p) for p, b in enumerate(occ))


def sector_indices(M, n_alpha=None, n_beta=None, up_then_down=False, n_total=None):
    """Indices of determinants with given alpha/beta counts.

    Spin-orbital ordering: interleaved (alpha = even indices) unless up_then_down (alpha = first half).
    """
    out = []
    for i in range(2 ** M):
        occ = occupations(i, M)
        if up_then_down:
            na, nb = sum(occ[: M // 2]), sum(occ[M // 2:])
        else:
            na, nb = sum(occ[0::2]), sum(occ[1::2])
        if n_total is not None and na + nb != n_total:
            continue
        if n_alpha is not None and na != n_alpha:
            continue
        if n_beta is not None and nb != n_beta:
            continue
        out.append(i)
    return out


def number_matrices(M, up_then_down=False):
    """Diagonals of N, Sz and dense S^2 built from ladder matrices (independent of Tangelo)."""
    d = 2 ** M
    n_orb = M // 2
    if up_then_down:
        al = list(range(n_orb))
        be = list(range(n_orb, M))
    else:
        al = list(range(0, M, 2))
        be = list(range(1, M, 2))
    N = np.zeros((d, d), dtype=complex)
    Sz = np.zeros((d, d), dtype=complex)
    Sp = np.zeros((d, d), dtype=complex)
    for a, b in zip(al, be):
        na = ladder(a, True, M) @ ladder(a, False, M)
        nb = ladder(b, True, M) @ ladder(b, False, M)
        N += na + nb
        Sz += 0.5 * (na - nb)
        Sp += ladder(a, True, M) @ ladder(b, False, M)
    Sm = Sp.conj().T
    S2 = Sm @ Sp + Sz @ (Sz + np.eye(d))
    return N, Sz, S2


def random_hermitian_fermion_terms(rng, n_orb, restricted=True, scale=1.0, two_body=True, up_then_down=False, eightfold=True, cplx=False):
    """Number- and spin-conserving Hermitian Hamiltonian terms from random symmetric integrals.

    Returns dict of openfermion-style terms on 2*n_orb spin orbitals (interleaved by default).
    H = c + sum h_pq a+_ps a_qs + 1/2 sum g_pqrs a+_ps a+_qt a_rt a_ss   (chemist symmetric g).
    """
    M = 2 * n_orb

    def so(p, s):
        return (p + s * n_orb) if up_then_down else (2 * p + s)

    terms = {(): float(rng.normal()) * scale}

    def add(t, c):
        if abs(c) > 0:
            terms[t] = terms.get(t, 0) + c

    hs = []
    for s in range(2):
        if s == 1 and restricted:
            hs.append(hs[0])
        else:
            h = rng.normal(size=(n_orb, n_orb)) * scale
            if cplx:
                h = h + 1j * rng.normal(size=(n_orb, n_orb)) * scale
            hs.append((h + h.conj().T) / 2)
    for s in range(2):
        for p in range(n_orb):
            for q in range(n_orb):
                add(((so(p, s), 1), (so(q, s), 0)), complex(hs[s][p, q]) if cplx else float(hs[s][p, q]))
    if two_body:
        # (pq|rs) with 8-fold symmetry, spin-independent
        g = rng.normal(size=(n_orb,) * 4) * scale * 0.5
        if cplx:
            g = g + 1j * rng.normal(size=(n_orb,) * 4) * scale * 0.5
        if eightfold and not cplx:
            g = g + g.transpose(1, 0, 2, 3)
            g = g + g.transpose(0, 1, 3, 2)
            g = g + g.transpose(2, 3, 0, 1)
        else:
            # only what Hermiticity and particle exchange require: (pq|rs) = (rs|pq) = conj (qp|sr)
            g = g + g.transpose(2, 3, 0, 1)
            g = g + g.transpose(1, 0, 3, 2).conj()
        for p, q, r, s_ in itertools.product(range(n_orb), repeat=4):
            for s1 in range(2):
                for s2 in range(2):
                    # 1/2 (pq|rs) a+_p,s1 a+_r,s2 a_s,s2 a_q,s1
                    t = ((so(p, s1), 1), (so(r, s2), 1), (so(s_, s2), 0), (so(q, s1), 0))
                    add(t, 0.5 * (complex(g[p, q, r, s_]) if cplx else float(g[p, q, r, s_])))
    return terms


def symmetry_operator_terms(n_orb):
    """Term dictionaries (interleaved spin-orbital labels) of N, Sz and S^2 = S_- S_+ + Sz^2 + Sz written from the definitions."""
    N, Sz, S2 = {}, {}, {}

    def add(d, t, c):
        d[t] = d.get(t, 0) + c
    for i in range(n_orb):
        a, b = 2 * i, 2 * i + 1
        add(N, ((a, 1), (a, 0)), 1.0)
        add(N, ((b, 1), (b, 0)), 1.0)
        add(Sz, ((a, 1), (a, 0)), 0.5)
        add(Sz, ((b, 1), (b, 0)), -0.5)
    # S_- S_+ = sum_ij a+_{i beta} a_{i alpha} a+_{j alpha} a_{j beta}
    for i in range(n_orb):
        for j in range(n_orb):
            add(S2, ((2 * i + 1, 1), (2 * i, 0), (2 * j, 1), (2 * j + 1, 0)), 1.0)
    # Sz^2 + Sz
    for t1, c1 in Sz.items():
        add(S2, t1, c1)
        for t2, c2 in Sz.items():
            add(S2, t1 + t2, c1 * c2)
    return N, Sz, S2
