"""Runner + monitor kit shared by every property check.

Parent process:  splits the case list of a property module into shards, runs each shard as a
separate `subprocess` (never multiprocessing.Pool), aggregates their event summaries, classifies
violations against /verif/known_findings.json, writes /verif/evidence/<id>.json and prints the
three-valued verdict (exit 0 held / 1 violated / 3 inconclusive).

Shard process:  imports the real code from /repo, switches on the branch-reach monitor
(sys.monitoring LINE events, each location fires once), runs its cases through the module's
`run_case(case, ctx)` and dumps counters, distinct-case hashes, samples and violations as JSON.
"""
import argparse
import ast
import hashlib
import importlib
import json
import os
import random
import subprocess
import sys
import time
import traceback

VERIF = os.path.dirname(os.path.dirname(os.path.abspath(__file__)))
REPO = os.environ.get("VERIF_REPO", "/repo")
OUT = os.environ.get("VERIF_OUT") or os.path.join(VERIF, "out")
PY = os.environ.get("VERIF_PY", "/venv/bin/python")
MAX_SAMPLES = 6
MAX_VIOL_PER_SHARD = 40


# ---------------------------------------------------------------------------------------------
# helpers usable by property modules

def jsonable(o):
    import numpy as np
    if isinstance(o, dict):
        return {str(k): jsonable(v) for k, v in o.items()}
    if isinstance(o, (list, tuple, set, frozenset)):
        return [jsonable(v) for v in o]
    if isinstance(o, (np.integer,)):
        return int(o)
    if isinstance(o, (np.floating,)):
        return float(o)
    if isinstance(o, (complex, np.complexfloating)):
        return {"re": float(o.real), "im": float(o.imag)}
    if isinstance(o, np.ndarray):
        return jsonable(o.tolist())
    if isinstance(o, (str, int, float, bool)) or o is None:
        return o
    return repr(o)


def h(obj):
    return hashlib.sha1(json.dumps(jsonable(obj), sort_keys=True).encode()).hexdigest()[:16]


def case_rng(seed, *keys):
    """A numpy Generator and python Random that depend only on (seed, keys)."""
    import numpy as np
    s = int(hashlib.sha1(repr((seed,) + keys).encode()).hexdigest()[:12], 16)
    return np.random.default_rng(s), random.Random(s), s % (2 ** 31)


def anchor_ranges(anchors):
    """anchors: list of (relative file, spec, name); spec = 'lo-hi' or comma separated function/class names.

    Returns {abs file: [(lo, hi, name), ...]}."""
    out = {}
    for rel, spec, name in anchors:
        path = os.path.join(REPO, rel)
        spans = []
        for part in [s.strip() for s in str(spec).split(",") if s.strip()]:
            if part[0].isdigit():
                lo, _, hi = part.partition("-")
                spans.append((int(lo), int(hi or lo)))
            else:
                try:
                    tree = ast.parse(open(path).read())
                except Exception:
                    continue
                for node in ast.walk(tree):
                    if isinstance(node, (ast.FunctionDef, ast.ClassDef)) and node.name == part:
                        spans.append((node.lineno, node.end_lineno))
        for lo, hi in spans:
            out.setdefault(path, []).append((lo, hi, name))
    return out


class Reach:
    """Which statement lines inside the anchored ranges executed (sys.monitoring, python >= 3.12)."""
    TOOL = 3

    def __init__(self, anchors):
        self.ranges = anchor_ranges(anchors)
        self.hit = {}
        for spans in self.ranges.values():
            for _, _, name in spans:
                self.hit.setdefault(name, set())
        self.on = False

    def start(self):
        if not hasattr(sys, "monitoring") or not self.ranges:
            return
        m = sys.monitoring
        try:
            m.use_tool_id(self.TOOL, "verif-reach")
        except ValueError:
            return
        m.register_callback(self.TOOL, m.events.LINE, self._line)
        m.set_events(self.TOOL, m.events.LINE)
        self.on = True

    def _line(self, code, line):
        spans = self.ranges.get(code.co_filename)
        if spans:
            for lo, hi, name in spans:
                if lo <= line <= hi:
                    self.hit[name].add(line)
        return sys.monitoring.DISABLE

    def stop(self):
        if self.on:
            m = sys.monitoring
            m.set_events(self.TOOL, 0)
            m.register_callback(self.TOOL, m.events.LINE, None)
            m.free_tool_id(self.TOOL)
            self.on = False

    def dump(self):
        return {k: sorted(v) for k, v in self.hit.items()}


class Ctx:
    """Per-shard event sink handed to run_case."""

    def __init__(self, prop, tier, seed):
        self.prop, self.tier, self.seed = prop, tier, seed
        self.monitors = {}      # sub -> number of oracle evaluations
        self.nontriv = set()
        self.samples = []
        self.tables = {}        # table -> {key: count}
        self.notes = {}
        self.violations = []
        self.inconcl = []
        self.case = None
        self.cases_run = 0

    # -- counters
    def ev(self, sub, n=1):
        self.monitors[sub] = self.monitors.get(sub, 0) + n

    def nontrivial(self, key):
        self.nontriv.add(h(key))

    def sample(self, obj, force=False):
        if force or len(self.samples) < MAX_SAMPLES:
            self.samples.append(jsonable(obj))

    def tab(self, table, key, n=1):
        t = self.tables.setdefault(table, {})
        key = str(key)
        t[key] = t.get(key, 0) + n

    def note(self, key, n=1):
        self.notes[key] = self.notes.get(key, 0) + n

    # -- verdict pieces
    def violation(self, sub, msg, witness=None, mech=None):
        if len(self.violations) < MAX_VIOL_PER_SHARD or mech is None:
            self.violations.append({"sub": sub, "msg": msg, "mech": mech, "case": self.case,
                                    "witness": jsonable(witness)})
        self.note("violations_seen")

    def check(self, sub, ok, msg="", witness=None, mech=None):
        """One oracle evaluation of monitor `sub`; `witness` may be a callable (evaluated lazily)."""
        self.ev(sub)
        if not ok:
            if callable(mech):
                mech = mech()
            if callable(witness):
                witness = witness()
            self.violation(sub, msg, witness, mech)
        return bool(ok)

    def inconclusive(self, reason):
        self.inconcl.append(reason)

    def dump(self):
        return {"monitors": self.monitors, "nontriv": sorted(self.nontriv), "samples": self.samples,
                "tables": self.tables, "notes": self.notes, "violations": self.violations,
                "inconclusive": self.inconcl, "cases_run": self.cases_run}


def run_repo_tests_under_monitors(ctx, paths, prefix, workers=1, timeout=1500, only=None, semantic=()):
    """Run some of the repository's own tests with the class-level monitors of vlib.livemon switched on and feed what the monitors
    observed into ctx (the tests' own pass/fail is ignored).  `only`: keep monitors whose name starts with one of these prefixes.
    Directories are expanded to their test files; with workers > 1 the files are run by that many concurrent pytest processes (no
    xdist: its workers do not get on with the wrapped classes), each in its own process group so that the time cap can end it cleanly."""
    import glob
    import signal
    import tempfile
    from vlib import livemon
    fd, out = tempfile.mkstemp(prefix="livemon_", suffix=".jsonl", dir=OUT)
    os.close(fd)
    env = dict(os.environ)
    env["PYTHONPATH"] = REPO + os.pathsep + VERIF
    env["VERIF_LIVEMON_OUT"] = out
    env["VERIF_LIVEMON_SEMANTIC"] = ",".join(semantic)
    env.setdefault("OMP_NUM_THREADS", "1")
    extra = []
    files = []
    it = iter(paths)
    for p in it:
        if p.startswith("-"):
            extra += [p, next(it)]
        elif p.endswith(".py"):
            files.append(p)
        else:
            files += sorted(os.path.relpath(f, REPO) for f in glob.glob(os.path.join(REPO, p, "**", "test_*.py"), recursive=True))
    base = [PY, "-m", "pytest", "-q", "-p", "no:cacheprovider", "-p", "vlib.pytest_livemon", "--timeout=600"] + extra
    jobs = [files] if workers <= 1 else [[f] for f in files]
    t_end = time.time() + timeout
    running, pending, capped = [], list(jobs), False
    while pending or running:
        while pending and len(running) < max(1, workers):
            j = pending.pop(0)
            running.append(subprocess.Popen(base + j, cwd=REPO, env=env, stdout=subprocess.DEVNULL, stderr=subprocess.DEVNULL, start_new_session=True))
        running = [p_ for p_ in running if p_.poll() is None]
        if time.time() > t_end:
            capped = True
            for p_ in running:
                try:
                    os.killpg(p_.pid, signal.SIGKILL)
                except OSError:
                    pass
            for p_ in running:
                p_.wait()
            break
        time.sleep(0.5)
    if capped:
        # a workload cap, not a verdict: the monitors flush periodically, what they saw so far is used (REQUIRED decides)
        ctx.note("repo_tests_time_cap_reached")
    counts, viol = livemon.read_results(out)
    try:
        os.remove(out)
    except OSError:
        pass
    total = 0
    for name, n in counts.items():
        if only and not any(name.startswith(o) for o in only):
            continue
        ctx.ev(prefix + name, n)
        total += n
    for v in viol:
        name = v.get("monitor", "?")
        if only and not any(name.startswith(o) for o in only):
            continue
        ctx.violation(prefix + name, f"class-level monitor '{name}' fired while the repository's own tests were running", v)
    ctx.ev(prefix + "observations_total", 0)
    ctx.monitors[prefix + "observations_total"] = ctx.monitors.get(prefix + "observations_total", 0) + total
    ctx.note("repo_test_files_run", len(files))
    return total


def repo_tests_case(case, ctx, quick_paths, thorough_paths, only, semantic=(), workers_thorough=6, timeout=1500):
    """Shared body of the 'repo_tests' case of several property modules."""
    paths = quick_paths if case["tier"] == "quick" else thorough_paths
    n = run_repo_tests_under_monitors(ctx, paths, "live_", workers=1 if case["tier"] == "quick" else workers_thorough, only=only,
                                      semantic=semantic, timeout=timeout)
    ctx.nontrivial(("repo_tests", tuple(paths)))
    ctx.sample({"sub": "repo_tests", "paths": paths, "monitor_observations": n})


def tangelo_in_traceback(tb):
    for fr in traceback.extract_tb(tb):
        if "/tangelo/" in fr.filename and "/verif/" not in fr.filename:
            return True
    return False


# ---------------------------------------------------------------------------------------------
# shard

def load_module(prop):
    return importlib.import_module(f"props.{prop.lower()}")


def assert_repo_import():
    import tangelo
    f = os.path.realpath(tangelo.__file__)
    if not f.startswith(os.path.realpath(REPO) + os.sep):
        raise RuntimeError(f"tangelo imported from {f}, expected under {REPO}")


def shard_main(prop, tier, seed, k, n, outfile, replay=None, budget=None):
    import warnings
    warnings.filterwarnings("ignore")
    import numpy as np
    t0 = time.time()
    mod = load_module(prop)
    ctx = Ctx(prop, tier, seed)
    reach = Reach(getattr(mod, "ANCHORS", []))
    status = "ok"
    try:
        assert_repo_import()
        if hasattr(mod, "setup"):
            mod.setup(ctx)
        if replay is not None:
            my = [replay]
        else:
            allc = mod.cases(tier, seed)
            # deterministic shuffle: balances the shards and makes a time-capped run a representative subset of all case families
            random.Random(f"{seed}/{prop}/{tier}").shuffle(allc)
            my = [c for i, c in enumerate(allc) if i % n == k]
        reach.start()
        for c in my:
            if budget and time.time() - t0 > budget:
                # the budget is a workload cap (not a verdict): the parent decides from the monitor counts and the fraction run
                ctx.note("cases_not_run_time_cap", len(my) - ctx.cases_run)
                break
            ctx.case = c
            _, _, s = case_rng(seed, prop, json.dumps(jsonable(c), sort_keys=True))
            np.random.seed(s)
            random.seed(s)
            try:
                mod.run_case(c, ctx)
            except Exception as e:  # noqa
                tb = sys.exc_info()[2]
                info = "".join(traceback.format_exception(type(e), e, tb))[-3000:]
                last = traceback.extract_tb(tb)[-1].filename
                if isinstance(e, AttributeError) and "module 'numpy.linalg' has no attribute 'linalg'" in str(e) and "/pyscf/" in last:
                    # the installed PySCF's DIIS handles a singular extrapolation matrix with numpy.linalg.linalg.LinAlgError, a name that
                    # NumPy 2 removed: an incompatibility between two third-party packages on a pathological geometry, not an observation
                    ctx.note("pyscf_numpy2_diis_incompatibility_skipped")
                elif tangelo_in_traceback(tb):
                    mech = None
                    if hasattr(mod, "classify_exception"):
                        try:
                            mech = mod.classify_exception(c, e, info)
                        except Exception:
                            mech = None
                    ctx.ev("no_unexpected_exception")
                    ctx.violation("no_unexpected_exception", f"{type(e).__name__}: {e}", {"traceback": info}, mech)
                else:
                    ctx.inconclusive(f"harness error in case {c}: {info[-800:]}")
            ctx.cases_run += 1
        reach.stop()
    except Exception as e:  # noqa
        status = "error"
        ctx.inconclusive("shard failed: " + "".join(traceback.format_exception(type(e), e, e.__traceback__))[-1500:])
    d = ctx.dump()
    d["reach"] = reach.dump()
    d["status"] = status
    d["cases_total"] = len(my) if status == "ok" else 0
    d["wall_s"] = time.time() - t0
    with open(outfile, "w") as f:
        json.dump(d, f)


# ---------------------------------------------------------------------------------------------
# parent

def load_known():
    p = os.path.join(VERIF, "known_findings.json")
    if not os.path.exists(p):
        return []
    return json.load(open(p)).get("findings", [])


def parent_main(prop, tier, seed, jobs, replay_file=None, shard_timeout=None):
    t0 = time.time()
    sys.path.insert(0, VERIF)
    mod = load_module(prop)
    outdir = os.path.join(OUT, prop)
    os.makedirs(outdir, exist_ok=True)
    os.makedirs(os.path.join(VERIF, "evidence"), exist_ok=True)
    env = dict(os.environ)
    env["PYTHONPATH"] = REPO + os.pathsep + VERIF
    env["PYTHONHASHSEED"] = "0"
    env.setdefault("OMP_NUM_THREADS", "1")
    env.setdefault("OPENBLAS_NUM_THREADS", "1")
    env.setdefault("MKL_NUM_THREADS", "1")
    env["VERIF_SEED"] = str(seed)
    env["VERIF_TIER"] = tier
    env["TANGELO_VERIF"] = "1"
    env["PYTHONDONTWRITEBYTECODE"] = "1"

    budget = getattr(mod, "BUDGET", {"quick": 240, "thorough": 3000})[tier]
    if shard_timeout is None:
        shard_timeout = budget + 120

    procs = []
    if replay_file:
        rp = json.load(open(replay_file))
        nsh = 1
        outfile = os.path.join(outdir, "replay.json")
        cmd = [PY, "-m", "vlib.harness", prop, "--tier", rp.get("tier", tier), "--seed", str(rp.get("seed", seed)),
               "--shard", "0/1", "--out", outfile, "--replay-case", json.dumps(rp["case"])]
        procs.append((0, outfile, subprocess.Popen(cmd, cwd=VERIF, env=env, stdout=subprocess.PIPE, stderr=subprocess.STDOUT)))
        seed = rp.get("seed", seed)
    else:
        ncases = len(mod.cases(tier, seed))
        nsh = max(1, min(jobs, ncases))
        for k in range(nsh):
            outfile = os.path.join(outdir, f"shard_{tier}_{seed}_{k}.json")
            if os.path.exists(outfile):
                os.remove(outfile)
            cmd = [PY, "-m", "vlib.harness", prop, "--tier", tier, "--seed", str(seed), "--shard", f"{k}/{nsh}",
                   "--out", outfile, "--budget", str(budget)]
            procs.append((k, outfile, subprocess.Popen(cmd, cwd=VERIF, env=env, stdout=subprocess.PIPE, stderr=subprocess.STDOUT)))

    agg = {"monitors": {}, "nontriv": set(), "samples": [], "tables": {}, "notes": {}, "violations": [],
           "inconclusive": [], "reach": {}, "cases_run": 0, "cases_total": 0}
    for k, outfile, p in procs:
        try:
            left = max(5, shard_timeout - (time.time() - t0))
            so, _ = p.communicate(timeout=left)
        except subprocess.TimeoutExpired:
            p.kill()
            so, _ = p.communicate()
            agg["inconclusive"].append(f"shard {k} killed by the wall-clock watchdog ({shard_timeout}s)")
        if not os.path.exists(outfile):
            tail = (so or b"").decode(errors="replace")[-1500:]
            agg["inconclusive"].append(f"shard {k} produced no output (exit {p.returncode}): {tail}")
            continue
        d = json.load(open(outfile))
        for s, c in d["monitors"].items():
            agg["monitors"][s] = agg["monitors"].get(s, 0) + c
        agg["nontriv"].update(d["nontriv"])
        for smp in d["samples"]:
            if len(agg["samples"]) < MAX_SAMPLES:
                agg["samples"].append(smp)
        for t, tab in d["tables"].items():
            tt = agg["tables"].setdefault(t, {})
            for kk, c in tab.items():
                tt[kk] = tt.get(kk, 0) + c
        for kk, c in d["notes"].items():
            agg["notes"][kk] = agg["notes"].get(kk, 0) + c
        agg["violations"].extend(d["violations"])
        agg["inconclusive"].extend(d["inconclusive"])
        for name, lines in d["reach"].items():
            agg["reach"].setdefault(name, set()).update(lines)
        agg["cases_run"] += d["cases_run"]
        agg["cases_total"] += d.get("cases_total", d["cases_run"])

    # ---- classify violations
    known = [f for f in load_known() if f.get("property") == prop]
    open_mechs = {f["mechanism"]: f for f in known if f.get("status") == "open"}
    kf_counts, new_viol = {}, []
    for v in agg["violations"]:
        if v.get("mech") and v["mech"] in open_mechs:
            kf_counts[v["mech"]] = kf_counts.get(v["mech"], 0) + 1
        else:
            new_viol.append(v)

    # ---- conclusiveness
    required = getattr(mod, "REQUIRED", {})
    if isinstance(required, dict) and "quick" in required and isinstance(required["quick"], dict):
        required = required[tier]
    if not replay_file:
        if agg["cases_run"] < 0.5 * agg["cases_total"]:
            agg["inconclusive"].append(f"time cap ({budget}s per shard) reached after only {agg['cases_run']} of {agg['cases_total']} cases")
        for sub, mn in required.items():
            if agg["monitors"].get(sub, 0) < mn:
                agg["inconclusive"].append(f"monitor '{sub}' evaluated {agg['monitors'].get(sub, 0)} < {mn} times")
        for name in [a[2] for a in getattr(mod, "ANCHORS", [])]:
            if name in getattr(mod, "ANCHORS_OPTIONAL", ()):
                continue
            if hasattr(sys, "monitoring") and not agg["reach"].get(name):
                agg["inconclusive"].append(f"anchored mechanism never executed: {name}")

    evaluations = sum(agg["monitors"].values())
    replay_paths = []
    if new_viol:
        rdir = os.path.join(OUT, "replays", prop)
        os.makedirs(rdir, exist_ok=True)
        seen = set()
        for v in new_viol:
            key = h([v["sub"], v["case"]])
            if key in seen:
                continue
            seen.add(key)
            path = os.path.join(rdir, key + ".json")
            json.dump({"property": prop, "tier": tier, "seed": seed, "sub": v["sub"], "msg": v["msg"],
                       "mech": v.get("mech"), "case": v["case"], "witness": v["witness"]}, open(path, "w"), indent=1)
            replay_paths.append((v, path))

    wall = time.time() - t0
    if not replay_file:
        cov = {
            "evaluations": int(evaluations),
            "distinct_nontrivial": len(agg["nontriv"]),
            "rule": getattr(mod, "RULE", ""),
            "samples": agg["samples"] or [{"note": "no sample recorded"}],
            "exhaustive": bool(getattr(mod, "EXHAUSTIVE", {}).get(tier, False)) if isinstance(getattr(mod, "EXHAUSTIVE", False), dict) else bool(getattr(mod, "EXHAUSTIVE", False)),
            "cases_run": agg["cases_run"],
            "cases_generated": agg["cases_total"],
            "shards": nsh,
            "monitor_evaluations": agg["monitors"],
            "coverage_tables": agg["tables"],
            "branch_reach_lines": {k: len(v) for k, v in agg["reach"].items()},
            "notes": agg["notes"],
            "known_findings_observed": kf_counts,
            "inconclusive_reasons": agg["inconclusive"][:20],
        }
        if hasattr(mod, "summarize"):
            try:
                cov.update(mod.summarize(agg, tier) or {})
            except Exception as e:  # noqa
                cov["summarize_error"] = repr(e)
        ev = {"property_id": prop, "tier": tier, "seed": int(seed), "level": "exploration", "coverage": cov,
              "assumptions": getattr(mod, "ASSUMPTIONS", []), "wall_s": round(wall, 2),
              "violations": len(new_viol)}
        evdir = os.path.join(VERIF, "evidence") if os.path.realpath(REPO) == "/repo" else os.path.join(OUT, "evidence_scratch")
        os.makedirs(evdir, exist_ok=True)
        with open(os.path.join(evdir, f"{prop}.json"), "w") as f:
            json.dump(jsonable(ev), f, indent=1)

    # ---- verdict
    print(f"[{prop}] tier={tier} seed={seed} shards={nsh} cases={agg['cases_run']} evaluations={evaluations} "
          f"distinct_nontrivial={len(agg['nontriv'])} wall={wall:.1f}s")
    if agg["cases_run"] < agg["cases_total"]:
        print(f"    workload capped by the time budget ({budget}s per shard): ran {agg['cases_run']} of {agg['cases_total']} generated cases")
    for sub, c in sorted(agg["monitors"].items()):
        print(f"    monitor {sub}: {c} evaluations")
    for name, lines in sorted(agg["reach"].items()):
        print(f"    reach {name}: {len(lines)} lines")
    for mech, c in sorted(kf_counts.items()):
        print(f"KNOWN-FINDING: property={prop} mechanism={mech} observed={c} :: {open_mechs[mech].get('what', '')}")
    if new_viol:
        shown = set()
        for v, path in replay_paths[:25]:
            print(f"VIOLATION property={prop} replay={path}")
            if v["sub"] not in shown:
                shown.add(v["sub"])
                print(f"    sub-check {v['sub']}: {v['msg'][:400]}")
        print(f"[{prop}] VIOLATED: {len(new_viol)} violating observations in {len(replay_paths)} distinct cases")
        return 1
    if agg["inconclusive"]:
        for r in agg["inconclusive"][:10]:
            print(f"INCONCLUSIVE property={prop} reason={r[:600]}")
        return 3
    print(f"[{prop}] HELD on everything explored")
    return 0


def main():
    ap = argparse.ArgumentParser()
    ap.add_argument("prop")
    ap.add_argument("--tier", default=os.environ.get("VERIF_TIER", "quick"))
    ap.add_argument("--seed", type=int, default=int(os.environ.get("VERIF_SEED", "0")))
    ap.add_argument("--jobs", type=int, default=int(os.environ.get("VERIF_JOBS", str(os.cpu_count() or 4))))
    ap.add_argument("--shard")
    ap.add_argument("--out")
    ap.add_argument("--budget", type=float)
    ap.add_argument("--replay")
    ap.add_argument("--replay-case")
    a = ap.parse_args()
    prop = a.prop.upper()
    if a.tier not in ("quick", "thorough"):
        a.tier = "quick"
    if a.shard:
        k, n = a.shard.split("/")
        rc = json.loads(a.replay_case) if a.replay_case else None
        shard_main(prop, a.tier, a.seed, int(k), int(n), a.out, replay=rc, budget=a.budget)
        return 0
    return parent_main(prop, a.tier, a.seed, a.jobs, replay_file=a.replay)


if __name__ == "__main__":
    sys.exit(main())
