"""Class-level runtime monitors that can be switched on under ANY workload (e.g. the repository's own test-suite).

`install()` wraps methods on the class objects (so every call made from inside the library is observed too) and checks
invariants at the call boundary:

  C11  after every mutating Circuit method the reported metadata equals the recomputation over the gate list; a rejected
       add_gate leaves no trace; read-only operations (copy, inverse, +, *, depth, split, stack, translate) leave their
       operands unchanged;
  C16  binary arithmetic of Tangelo's FermionOperator / QubitHamiltonian leaves both operands unchanged;
  C01  every noiseless Backend.simulate call of the cirq / sympy simulators on a small numeric measurement-free circuit returns
       the frequencies of the reference simulation (exact mode: equal; sampled mode: support inclusion and normalisation);
  C02  every exact-mode get_expectation_value on such a circuit equals <psi|H|psi> of the reference simulation;
  C09  every in-place optimisation pass keeps the unitary (up to a global phase / the dropped-rotation allowance);
  C17  every Tangelo -> cirq translation of a small numeric circuit has the unitary of the reference simulation.

Observations are appended to the JSONL file named by VERIF_LIVEMON_OUT ({"monitor":..., "ok":bool, ...}); evaluation
counters are flushed at interpreter exit.  Monitors only record - they never raise into the observed program.
"""
import atexit
import collections
import functools
import json
import os
import random
import traceback

_OUT = os.environ.get("VERIF_LIVEMON_OUT")
_counts = collections.Counter()
_viol = []
_installed = False
_rnd = random.Random(12345)
MAX_VIOL = 200


def _gsnap(c):
    return [(g.name, tuple(g.target), None if g.control is None else tuple(g.control), repr(g.parameter), bool(g.is_variational)) for g in c._gates]


def _meta_ok(c):
    gl = c._gates
    if c.size != len(gl):
        return "size"
    cnt = collections.Counter(g.name for g in gl)
    if dict(c.counts) != dict(cnt):
        return "counts"
    cntn = collections.Counter(len(g.target) + (len(g.control) if g.control is not None else 0) for g in gl)
    if dict(c.counts_n_qubit) != dict(cntn):
        return "counts_n_qubit"
    if bool(c.is_variational) != any(g.is_variational for g in gl):
        return "is_variational"
    mx = -1
    for g in gl:
        mx = max([mx] + list(g.target) + list(g.control or []))
    if c.width < mx + 1:
        return "width"
    return None


_last_flush = [0.0]


def _record(monitor, ok, **info):
    import time
    _counts[monitor] += 1
    if _OUT and time.time() - _last_flush[0] > 20:
        if _last_flush[0]:
            _flush()
        _last_flush[0] = time.time()
    if not ok and len(_viol) < MAX_VIOL:
        info["monitor"] = monitor
        info["stack"] = "".join(traceback.format_stack(limit=8)[:-2])[-1500:]
        _viol.append(info)


def _flush():
    if not _OUT or not _counts:
        return
    try:
        with open(_OUT, "a") as f:
            f.write(json.dumps({"pid": os.getpid(), "counts": dict(_counts), "violations": list(_viol)}, default=repr) + "\n")
        _counts.clear()
        del _viol[:]
    except Exception:
        pass


def install():
    global _installed
    if _installed:
        return
    _installed = True
    atexit.register(_flush)
    from tangelo.linq import Circuit
    import tangelo.linq.circuit as cmod
    from tangelo.toolboxes.operators import FermionOperator

    # ---- C11: mutating methods
    def wrap_mutating(name, full_check=True):
        orig = getattr(Circuit, name)

        @functools.wraps(orig)
        def w(self, *a, **k):
            before = None
            if name == "add_gate":
                before = (len(self._gates), dict(self._gate_counts), dict(self._n_qubit_gate_counts), len(self._variational_gates), set(self._qubit_indices))
            try:
                r = orig(self, *a, **k)
            except Exception:
                if name == "add_gate":
                    after = (len(self._gates), dict(self._gate_counts), dict(self._n_qubit_gate_counts), len(self._variational_gates), set(self._qubit_indices))
                    _record("rejected_add_gate_no_effect", after == before, before=repr(before), after=repr(after))
                raise
            try:
                if name == "add_gate":
                    # O(1) part always, full recomputation for small circuits or a 2% sample
                    ok = self.size == len(self._gates) and sum(self._gate_counts.values()) == self.size
                    why = None if ok else "size/counts sum"
                    if ok and (self.size <= 12 or _rnd.random() < (0.02 if self.size <= 500 else 10.0 / self.size)):
                        why = _meta_ok(self)
                    _record("metadata_after_add_gate", why is None, why=why, gates=(None if why is None else repr(_gsnap(self))[:600]))
                else:
                    why = _meta_ok(self)
                    _record("metadata_after_" + name, why is None, why=why, gates=(None if why is None else repr(_gsnap(self))[:600]))
            except Exception as e:  # monitors never disturb the program
                _record("monitor_error:" + type(e).__name__ + ":" + str(e)[:60], True)
            return r
        setattr(Circuit, name, w)

    for nm in ("add_gate", "trim_qubits", "reindex_qubits", "remove_small_rotations", "remove_redundant_gates", "merge_rotations", "simplify"):
        wrap_mutating(nm)

    # ---- C11: read-only methods (operands unchanged, result consistent)
    def wrap_readonly(name):
        orig = getattr(Circuit, name)

        @functools.wraps(orig)
        def w(self, *a, **k):
            small = len(self._gates) <= 400 and all(len(x._gates) <= 400 for x in a if isinstance(x, Circuit))
            s0 = _gsnap(self) if small else None
            others = [x for x in a if isinstance(x, Circuit)]
            o0 = [_gsnap(x) for x in others] if small else None
            r = orig(self, *a, **k)
            try:
                if small:
                    ok = _gsnap(self) == s0 and all(_gsnap(x) == y for x, y in zip(others, o0))
                    _record("readonly_" + name.strip("_"), ok, op=name, before=repr(s0)[:400], after=repr(_gsnap(self))[:400])
                if isinstance(r, Circuit) and len(r._gates) <= 400:
                    why = _meta_ok(r)
                    _record("metadata_of_result_" + name.strip("_"), why is None, why=why)
            except Exception as e:
                _record("monitor_error:" + type(e).__name__ + ":" + str(e)[:60], True)
            return r
        setattr(Circuit, name, w)

    for nm in ("copy", "inverse", "__add__", "__mul__", "depth", "split", "stack"):
        wrap_readonly(nm)

    # translate_circuit(circuit, target) must not touch a Tangelo source circuit
    import importlib
    import sys as _sys
    tmod = importlib.import_module("tangelo.linq.translator.translate_circuit")
    orig_tr = tmod.translate_circuit

    @functools.wraps(orig_tr)
    def tr(circuit, target, source="tangelo", output_options=None):
        s0 = _gsnap(circuit) if isinstance(circuit, Circuit) and len(circuit._gates) <= 400 else None
        r = orig_tr(circuit, target, source=source, output_options=output_options)
        if s0 is not None:
            _record("readonly_translate_" + str(target).lower(), _gsnap(circuit) == s0, target=target)
        return r
    # references bound with `from ... import translate_circuit [as x]` before we got here bypass a patched module attribute:
    # re-bind every such name in the already imported tangelo modules
    for mname, mod in list(_sys.modules.items()):
        if mname.startswith("tangelo") and mod is not None:
            for attr, val in list(vars(mod).items()):
                if val is orig_tr:
                    setattr(mod, attr, tr)

    # ---- C16: operand snapshots around FermionOperator arithmetic
    def fsnap(o):
        return tuple(sorted((repr(t), repr(c)) for t, c in o.terms.items())) if hasattr(o, "terms") else repr(o)

    def wrap_arith(cls, name):
        # only methods the class defines itself: adding e.g. a reflected method to a subclass would change Python's operator dispatch
        if name not in cls.__dict__:
            return
        orig = cls.__dict__[name]

        @functools.wraps(orig)
        def w(self, *a, **k):
            if len(self.terms) > 200 or any(len(getattr(x, "terms", ())) > 200 for x in a):
                return orig(self, *a, **k)
            s0 = fsnap(self)
            o0 = [fsnap(x) for x in a]
            r = orig(self, *a, **k)
            try:
                ok = fsnap(self) == s0 and all(fsnap(x) == y for x, y in zip(a, o0))
                _record(f"{cls.__name__}{name}_operands_unchanged", ok, op=name)
            except Exception as e:
                _record("monitor_error:" + type(e).__name__ + ":" + str(e)[:60], True)
            return r
        setattr(cls, name, w)

    for nm in ("__add__", "__radd__", "__sub__", "__rsub__", "__mul__", "__rmul__", "__neg__", "__truediv__"):
        wrap_arith(FermionOperator, nm)
    try:
        from tangelo.toolboxes.operators import QubitHamiltonian
        for nm in ("__eq__",):
            wrap_arith(QubitHamiltonian, nm)
    except Exception:
        pass


def _numeric_gates(c, max_width, max_size):
    """refsim gate tuples of a small, purely numeric, measurement-free circuit (else None)."""
    import numbers
    from vlib import refsim
    if not (0 < c.width <= max_width) or len(c._gates) > max_size:
        return None
    out = []
    for g in c._gates:
        if g.name not in refsim.SUPPORTED:
            return None
        par = g.parameter
        if g.name in refsim.PARAM:
            if isinstance(par, bool) or not isinstance(par, numbers.Real):
                return None
            par = float(par)
        out.append((g.name, list(g.target), None if g.control is None else list(g.control), par))
    return out


def install_semantic(which=("C01", "C02", "C09", "C17")):
    """Reference-model monitors on Backend.simulate / get_expectation_value, the in-place passes and the cirq translator."""
    import numpy as np
    from vlib import refsim
    from tangelo.linq import Circuit
    import tangelo.linq.target.backend as bmod
    Backend = bmod.Backend

    def plain_backend(be):
        return type(be).__name__ in ("CirqSimulator", "SympySimulator") and not getattr(be, "_noise_model", None)

    def ref_state(be, circ, initial_statevector):
        gl = _numeric_gates(circ, 9, 600)
        if gl is None:
            return None, None
        init = None
        if initial_statevector is not None:
            if type(be).__name__ != "CirqSimulator":
                return None, None
            init = np.asarray(initial_statevector, dtype=complex).reshape(-1)
            if init.size != 2 ** circ.width or abs(np.linalg.norm(init) - 1) > 1e-8:
                return None, None
        return gl, refsim.run(gl, circ.width, init)

    orig_sim = Backend.simulate

    @functools.wraps(orig_sim)
    def simulate(self, source_circuit, return_statevector=False, initial_statevector=None, desired_meas_result=None, save_mid_circuit_meas=False):
        r = orig_sim(self, source_circuit, return_statevector=return_statevector, initial_statevector=initial_statevector,
                     desired_meas_result=desired_meas_result, save_mid_circuit_meas=save_mid_circuit_meas)
        try:
            if isinstance(source_circuit, Circuit) and plain_backend(self) and desired_meas_result is None and not save_mid_circuit_meas:
                gl, vec = ref_state(self, source_circuit, initial_statevector)
                if vec is not None:
                    n = source_circuit.width
                    ef = refsim.freq_dict(vec, n, threshold=0.0)
                    freqs = {k: float(v) for k, v in r[0].items()}
                    name = type(self).__name__
                    if self.n_shots is None:
                        ok = all(len(k) == n for k in freqs) and all(abs(freqs.get(k, 0.0) - v) < 1e-6 for k, v in ef.items())
                        _record(f"simulate_exact_{name}", ok, gates=repr(gl)[:800], got=repr(freqs)[:400], expected=repr({k: v for k, v in ef.items() if v > 1e-9})[:400])
                    else:
                        ok = all(len(k) == n and ef.get(k, 0.0) > 1e-12 for k in freqs) and abs(sum(freqs.values()) - 1) < 1e-6
                        _record(f"simulate_sampled_support_{name}", ok, gates=repr(gl)[:800], got=repr(freqs)[:400])
        except Exception as e:
            _record("monitor_error:" + type(e).__name__ + ":" + str(e)[:60], True)
        return r
    if "C01" in which:
        Backend.simulate = simulate

    # ---- C10: exact runs conditioned on mid-circuit outcomes (MEASURE gates only) follow the projected branch
    base_sim = Backend.simulate

    @functools.wraps(base_sim)
    def simulate_c10(self, source_circuit, return_statevector=False, initial_statevector=None, desired_meas_result=None, save_mid_circuit_meas=False):
        r = base_sim(self, source_circuit, return_statevector=return_statevector, initial_statevector=initial_statevector,
                     desired_meas_result=desired_meas_result, save_mid_circuit_meas=save_mid_circuit_meas)
        try:
            if isinstance(source_circuit, Circuit) and type(self).__name__ == "CirqSimulator" and not getattr(self, "_noise_model", None) \
                    and desired_meas_result is not None and self.n_shots is None and source_circuit.counts.get("CMEASURE", 0) == 0 \
                    and 0 < source_circuit.width <= 8 and len(source_circuit._gates) <= 600:
                import numbers
                gl = []
                for g in source_circuit._gates:
                    if g.name == "MEASURE":
                        gl.append(("MEASURE", list(g.target), None, ""))
                    elif g.name in refsim.SUPPORTED and (g.name not in refsim.PARAM or (isinstance(g.parameter, numbers.Real) and not isinstance(g.parameter, bool))):
                        gl.append((g.name, list(g.target), None if g.control is None else list(g.control), g.parameter))
                    else:
                        gl = None
                        break
                init = None if initial_statevector is None else np.asarray(initial_statevector, dtype=complex).reshape(-1)
                if gl is not None and (init is None or init.size == 2 ** source_circuit.width):
                    n = source_circuit.width
                    st, prob = refsim.run_branch(gl, n, desired_meas_result, init)
                    if st is not None and prob > 1e-9:
                        ef = refsim.freq_dict(st, n, threshold=0.0)
                        freqs = {k: float(v) for k, v in r[0].items()}
                        ok = all(abs(freqs.get(k, 0.0) - v) < 1e-6 for k, v in ef.items()) and all(len(k) == n for k in freqs)
                        sp = getattr(source_circuit, "success_probabilities", None) or getattr(self, "_success_probability", None)
                        _record("conditioned_exact_branch", ok, gates=repr(gl)[:800], desired=desired_meas_result, got=repr(freqs)[:400],
                                expected=repr({k: v for k, v in ef.items() if v > 1e-9})[:400], branch_probability=prob)
        except Exception as e:
            _record("monitor_error:" + type(e).__name__ + ":" + str(e)[:60], True)
        return r
    if "C10" in which:
        Backend.simulate = simulate_c10

    orig_exp = Backend.get_expectation_value
    depth = [0]

    @functools.wraps(orig_exp)
    def get_expectation_value(self, qubit_operator, state_prep_circuit, initial_statevector=None, desired_meas_result=None):
        depth[0] += 1
        try:
            r = orig_exp(self, qubit_operator, state_prep_circuit, initial_statevector=initial_statevector, desired_meas_result=desired_meas_result)
        finally:
            depth[0] -= 1
        try:
            if depth[0] == 0 and isinstance(state_prep_circuit, Circuit) and plain_backend(self) and self.n_shots is None \
                    and desired_meas_result is None and len(qubit_operator.terms) <= 400:
                gl, vec = ref_state(self, state_prep_circuit, initial_statevector)
                if vec is not None:
                    terms = {t: complex(c) for t, c in qubit_operator.terms.items()}
                    want = refsim.expectation(terms, vec, state_prep_circuit.width)
                    got = complex(r)
                    scale = 1 + sum(abs(c) for c in terms.values())
                    _record(f"expectation_exact_{type(self).__name__}", abs(got - want) < 1e-6 * scale, gates=repr(gl)[:800],
                            operator=repr(terms)[:600], got=repr(got), expected=repr(want))
        except Exception as e:
            _record("monitor_error:" + type(e).__name__ + ":" + str(e)[:60], True)
        return r
    if "C02" in which:
        Backend.get_expectation_value = get_expectation_value

    # ---- C09: in-place passes keep the unitary
    def wrap_pass(name):
        orig = getattr(Circuit, name)

        @functools.wraps(orig)
        def w(self, *a, **k):
            gl0 = _numeric_gates(self, 6, 300)
            w0 = self.width
            r = orig(self, *a, **k)
            try:
                removeq = k.get("remove_qubits", False) or (name in ("remove_small_rotations", "remove_redundant_gates") and len(a) >= (2 if name == "remove_small_rotations" else 1) and a[-1] is True) \
                    or (name == "simplify" and len(a) >= 3 and a[2])
                if gl0 is not None and not removeq:
                    gl1 = _numeric_gates(self, 6, 300) if self.width else []
                    if gl1 is not None and self.width <= w0:
                        u0, u1 = refsim.unitary(gl0, w0), refsim.unitary(gl1, w0)
                        thr = 0.0
                        if name in ("remove_small_rotations", "simplify"):
                            pt = k.get("param_threshold", (a[0] if name == "remove_small_rotations" and a else (a[1] if name == "simplify" and len(a) > 1 else 1e-3)))
                            thr = float(pt) * max(0, len(gl0) - len(gl1))
                        b2 = refsim.phase_align(u0, u1)
                        d = float(np.linalg.norm(u0 - b2, 2))
                        _record("pass_keeps_unitary_" + name, d <= thr + 1e-7, before=repr(gl0)[:800], after=repr(gl1)[:800], distance=d, allowance=thr)
            except Exception as e:
                _record("monitor_error:" + type(e).__name__ + ":" + str(e)[:60], True)
            return r
        setattr(Circuit, name, w)

    if "C09" in which:
        for nm in ("remove_small_rotations", "remove_redundant_gates", "merge_rotations", "simplify"):
            wrap_pass(nm)
    # ---- C07: after update_var_params the circuit is equivalent to a fresh build (deep copy of the ansatz, build_circuit with the
    #      parameters it now holds); sampled, small registers only
    if "C07" in which:
        import copy
        import inspect
        import tangelo.toolboxes.ansatz_generator as agmod
        seen_calls = collections.Counter()
        probes = {}

        def wrap_update(cls):
            orig = cls.__dict__["update_var_params"]

            @functools.wraps(orig)
            def w(self, var_params):
                r = orig(self, var_params)
                try:
                    seen_calls[cls.__name__] += 1
                    circ = getattr(self, "circuit", None)
                    if circ is not None and 0 < circ.width <= 8 and (seen_calls[cls.__name__] <= 5 or _rnd.random() < 0.05):
                        gl = _numeric_gates(circ, 8, 2500)
                        if gl is not None and self.var_params is not None:
                            memo = {}
                            mol_ = getattr(self, "molecule", None)
                            if mol_ is not None:
                                memo[id(mol_)] = mol_      # molecules hold module references (not copyable); ansaetze only read them
                            fresh = copy.deepcopy(self, memo)
                            fresh.build_circuit(list(np.asarray(self.var_params).reshape(-1)))
                            gl2 = _numeric_gates(fresh.circuit, 8, 5000)
                            if gl2 is not None:
                                n = max(circ.width, fresh.circuit.width)
                                if n not in probes:
                                    rs = np.random.default_rng(777 + n)
                                    v = rs.normal(size=2 ** n) + 1j * rs.normal(size=2 ** n)
                                    probes[n] = v / np.linalg.norm(v)
                                d = max(refsim.dist_up_to_phase(refsim.run(gl, n), refsim.run(gl2, n)),
                                        refsim.dist_up_to_phase(refsim.run(gl, n, probes[n]), refsim.run(gl2, n, probes[n])))
                                _record("update_equals_rebuild_" + cls.__name__, d < 1e-7, ansatz=cls.__name__, distance=d,
                                        var_params=repr(list(np.asarray(self.var_params).reshape(-1)))[:600])
                except Exception as e:
                    _record("monitor_error:" + type(e).__name__ + ":" + str(e)[:60], True)
                return r
            setattr(cls, "update_var_params", w)

        for nm_, cls in inspect.getmembers(agmod, inspect.isclass):
            if cls.__module__.startswith("tangelo.toolboxes.ansatz_generator") and "update_var_params" in cls.__dict__ \
                    and not inspect.isabstract(cls):
                wrap_update(cls)
    if "C17" not in which:
        return

    # ---- C17: Tangelo -> cirq translation has the reference unitary
    import importlib
    import sys as _sys
    tmod = importlib.import_module("tangelo.linq.translator.translate_circuit")
    cur = tmod.translate_circuit

    @functools.wraps(cur)
    def tr(circuit, target, source="tangelo", output_options=None):
        r = cur(circuit, target, source=source, output_options=output_options)
        try:
            if str(target).lower() == "cirq" and str(source).lower() == "tangelo" and isinstance(circuit, Circuit) \
                    and not (output_options or {}).get("noise_model") and not (output_options or {}).get("save_measurements"):
                gl = _numeric_gates(circuit, 5, 200)
                if gl is not None:
                    import cirq
                    n = circuit.width
                    uc = r.unitary(qubit_order=cirq.LineQubit.range(n), qubits_that_should_be_present=cirq.LineQubit.range(n))
                    d = float(np.abs(uc - refsim.unitary(gl, n)).max())
                    _record("translate_cirq_unitary", d < 1e-7, gates=repr(gl)[:800], distance=d)
        except Exception as e:
            _record("monitor_error:" + type(e).__name__ + ":" + str(e)[:60], True)
        return r
    for mname, mod in list(_sys.modules.items()):
        if mname.startswith("tangelo") and mod is not None:
            for attr, val in list(vars(mod).items()):
                if val is cur:
                    setattr(mod, attr, tr)


def read_results(path):
    """Aggregate a JSONL file written by one or more monitored processes."""
    counts = collections.Counter()
    viol = []
    if not os.path.exists(path):
        return counts, viol
    for line in open(path):
        try:
            d = json.loads(line)
        except Exception:
            continue
        counts.update(d.get("counts", {}))
        viol.extend(d.get("violations", []))
    return counts, viol
