"""Class-level runtime monitors that can be switched on under ANY workload (e.g. the repository's own test-suite).

`install()` wraps methods on the class objects (so every call made from inside the library is observed too) and checks
invariants at the call boundary:

  C11  after every mutating Circuit method the reported metadata equals the recomputation over the gate list; a rejected
       add_gate leaves no trace; read-only operations (copy, inverse, +, *, depth, split, stack, translate) leave their
       operands unchanged;
  C16  binary arithmetic of Tangelo's FermionOperator / QubitHamiltonian leaves both operands unchanged.

Observations are appended to the JSONL file named by VERIF_LIVEMON_OUT ({"monitor":..., "ok":bool, ...}); evaluation
counters are flushed at interpreter exit.  Monitors only record - they never raise into the observed program.
"""
import atexit
import collections
import functools
import json
import os
import random
import traceback

_OUT = os.environ.get("VERIF_LIVEMON_OUT")
_counts = collections.Counter()
_viol = []
_installed = False
_rnd = random.Random(12345)
MAX_VIOL = 200


def _gsnap(c):
    return [(g.name, tuple(g.target), None if g.control is None else tuple(g.control), repr(g.parameter), bool(g.is_variational)) for g in c._gates]


def _meta_ok(c):
    gl = c._gates
    if c.size != len(gl):
        return "size"
    cnt = collections.Counter(g.name for g in gl)
    if dict(c.counts) != dict(cnt):
        return "counts"
    cntn = collections.Counter(len(g.target) + (len(g.control) if g.control is not None else 0) for g in gl)
    if dict(c.counts_n_qubit) != dict(cntn):
        return "counts_n_qubit"
    if bool(c.is_variational) != any(g.is_variational for g in gl):
        return "is_variational"
    mx = -1
    for g in gl:
        mx = max([mx] + list(g.target) + list(g.control or []))
    if c.width < mx + 1:
        return "width"
    return None


def _record(monitor, ok, **info):
    _counts[monitor] += 1
    if not ok and len(_viol) < MAX_VIOL:
        info["monitor"] = monitor
        info["stack"] = "".join(traceback.format_stack(limit=8)[:-2])[-1500:]
        _viol.append(info)


def _flush():
    if not _OUT or not _counts:
        return
    try:
        with open(_OUT, "a") as f:
            f.write(json.dumps({"pid": os.getpid(), "counts": dict(_counts), "violations": list(_viol)}, default=repr) + "\n")
        _counts.clear()
        del _viol[:]
    except Exception:
        pass


def install():
    global _installed
    if _installed:
        return
    _installed = True
    atexit.register(_flush)
    from tangelo.linq import Circuit
    import tangelo.linq.circuit as cmod
    from tangelo.toolboxes.operators import FermionOperator

    # ---- C11: mutating methods
    def wrap_mutating(name, full_check=True):
        orig = getattr(Circuit, name)

        @functools.wraps(orig)
        def w(self, *a, **k):
            before = None
            if name == "add_gate":
                before = (len(self._gates), dict(self._gate_counts), dict(self._n_qubit_gate_counts), len(self._variational_gates), set(self._qubit_indices))
            try:
                r = orig(self, *a, **k)
            except Exception:
                if name == "add_gate":
                    after = (len(self._gates), dict(self._gate_counts), dict(self._n_qubit_gate_counts), len(self._variational_gates), set(self._qubit_indices))
                    _record("rejected_add_gate_no_effect", after == before, before=repr(before), after=repr(after))
                raise
            try:
                if name == "add_gate":
                    # O(1) part always, full recomputation for small circuits or a 2% sample
                    ok = self.size == len(self._gates) and sum(self._gate_counts.values()) == self.size
                    why = None if ok else "size/counts sum"
                    if ok and (self.size <= 12 or _rnd.random() < 0.02):
                        why = _meta_ok(self)
                    _record("metadata_after_add_gate", why is None, why=why, gates=repr(_gsnap(self))[:600])
                else:
                    why = _meta_ok(self)
                    _record("metadata_after_" + name, why is None, why=why, gates=repr(_gsnap(self))[:600])
            except Exception as e:  # monitors never disturb the program
                _record("monitor_error", True, err=repr(e))
            return r
        setattr(Circuit, name, w)

    for nm in ("add_gate", "trim_qubits", "reindex_qubits", "remove_small_rotations", "remove_redundant_gates", "merge_rotations", "simplify"):
        wrap_mutating(nm)

    # ---- C11: read-only methods (operands unchanged, result consistent)
    def wrap_readonly(name):
        orig = getattr(Circuit, name)

        @functools.wraps(orig)
        def w(self, *a, **k):
            small = len(self._gates) <= 400
            s0 = _gsnap(self) if small else None
            others = [x for x in a if isinstance(x, Circuit)]
            o0 = [_gsnap(x) for x in others] if small else None
            r = orig(self, *a, **k)
            try:
                if small:
                    ok = _gsnap(self) == s0 and all(_gsnap(x) == y for x, y in zip(others, o0))
                    _record("readonly_" + name.strip("_"), ok, op=name, before=repr(s0)[:400], after=repr(_gsnap(self))[:400])
                if isinstance(r, Circuit) and len(r._gates) <= 400:
                    why = _meta_ok(r)
                    _record("metadata_of_result_" + name.strip("_"), why is None, why=why)
            except Exception as e:
                _record("monitor_error", True, err=repr(e))
            return r
        setattr(Circuit, name, w)

    for nm in ("copy", "inverse", "__add__", "__mul__", "depth", "split", "stack"):
        wrap_readonly(nm)

    # translate_circuit(circuit, target) must not touch a Tangelo source circuit
    import importlib
    import sys as _sys
    tmod = importlib.import_module("tangelo.linq.translator.translate_circuit")
    orig_tr = tmod.translate_circuit

    @functools.wraps(orig_tr)
    def tr(circuit, target, source="tangelo", output_options=None):
        s0 = _gsnap(circuit) if isinstance(circuit, Circuit) and len(circuit._gates) <= 400 else None
        r = orig_tr(circuit, target, source=source, output_options=output_options)
        if s0 is not None:
            _record("readonly_translate_" + str(target).lower(), _gsnap(circuit) == s0, target=target)
        return r
    # references bound with `from ... import translate_circuit [as x]` before we got here bypass a patched module attribute:
    # re-bind every such name in the already imported tangelo modules
    for mname, mod in list(_sys.modules.items()):
        if mname.startswith("tangelo") and mod is not None:
            for attr, val in list(vars(mod).items()):
                if val is orig_tr:
                    setattr(mod, attr, tr)

    # ---- C16: operand snapshots around FermionOperator arithmetic
    def fsnap(o):
        return tuple(sorted((repr(t), repr(c)) for t, c in o.terms.items())) if hasattr(o, "terms") else repr(o)

    def wrap_arith(cls, name):
        # only methods the class defines itself: adding e.g. a reflected method to a subclass would change Python's operator dispatch
        if name not in cls.__dict__:
            return
        orig = cls.__dict__[name]

        @functools.wraps(orig)
        def w(self, *a, **k):
            if len(self.terms) > 3000:
                return orig(self, *a, **k)
            s0 = fsnap(self)
            o0 = [fsnap(x) for x in a]
            r = orig(self, *a, **k)
            try:
                ok = fsnap(self) == s0 and all(fsnap(x) == y for x, y in zip(a, o0))
                _record(f"{cls.__name__}{name}_operands_unchanged", ok, op=name)
            except Exception as e:
                _record("monitor_error", True, err=repr(e))
            return r
        setattr(cls, name, w)

    for nm in ("__add__", "__radd__", "__sub__", "__rsub__", "__mul__", "__rmul__", "__neg__", "__truediv__"):
        wrap_arith(FermionOperator, nm)
    try:
        from tangelo.toolboxes.operators import QubitHamiltonian
        for nm in ("__eq__",):
            wrap_arith(QubitHamiltonian, nm)
    except Exception:
        pass


def read_results(path):
    """Aggregate a JSONL file written by one or more monitored processes."""
    counts = collections.Counter()
    viol = []
    if not os.path.exists(path):
        return counts, viol
    for line in open(path):
        try:
            d = json.loads(line)
        except Exception:
            continue
        counts.update(d.get("counts", {}))
        viol.extend(d.get("violations", []))
    return counts, viol
