"""Reference quantum chemistry written directly on PySCF primitives (no Tangelo code).

Own AO->MO integral transformation, own frozen-core folding (restricted and unrestricted), sector
ground states with pyscf.fci direct_spin1 / direct_uhf (no spin adaptation).
"""
import numpy as np


def mo_integrals(pymol, C):
    """(h1[p,q], eri[p,q,r,s] = (pq|rs) chemist) in the MO basis C."""
    from pyscf import ao2mo
    hcore = pymol.intor("int1e_kin") + pymol.intor("int1e_nuc")
    h1 = C.T @ hcore @ C
    n = C.shape[1]
    eri = ao2mo.restore(1, ao2mo.kernel(pymol, C), n)
    return h1, eri


def mo_integrals_ab(pymol, Ca, Cb):
    from pyscf import ao2mo
    na, nb = Ca.shape[1], Cb.shape[1]
    eri_ab = ao2mo.general(pymol, (Ca, Ca, Cb, Cb), compact=False).reshape(na, na, nb, nb)
    return eri_ab


def restricted_active_space(pymol, C, core, active):
    """(E_core, h_eff[active], eri[active]) with doubly occupied `core` orbitals folded in."""
    h1, eri = mo_integrals(pymol, C)
    e = pymol.energy_nuc()
    for i in core:
        e += 2 * h1[i, i]
        for j in core:
            e += 2 * eri[i, i, j, j] - eri[i, j, j, i]
    heff = h1.copy()
    for i in core:
        heff += 2 * eri[:, :, i, i] - eri[:, i, i, :]
    ix = np.ix_(active, active)
    return e, heff[ix], eri[np.ix_(active, active, active, active)]


def unrestricted_active_space(pymol, Ca, Cb, core_a, core_b, act_a, act_b):
    h1a, eaa = mo_integrals(pymol, Ca)
    h1b, ebb = mo_integrals(pymol, Cb)
    eab = mo_integrals_ab(pymol, Ca, Cb)
    e = pymol.energy_nuc()
    for i in core_a:
        e += h1a[i, i]
        for j in core_a:
            e += 0.5 * (eaa[i, i, j, j] - eaa[i, j, j, i])
        for j in core_b:
            e += 0.5 * eab[i, i, j, j]
    for i in core_b:
        e += h1b[i, i]
        for j in core_b:
            e += 0.5 * (ebb[i, i, j, j] - ebb[i, j, j, i])
        for j in core_a:
            e += 0.5 * eab[j, j, i, i]
    ha, hb = h1a.copy(), h1b.copy()
    for i in core_a:
        ha += eaa[:, :, i, i] - eaa[:, i, i, :]
        hb += eab[i, i, :, :]
    for i in core_b:
        hb += ebb[:, :, i, i] - ebb[:, i, i, :]
        ha += eab[:, :, i, i]
    return (e, (ha[np.ix_(act_a, act_a)], hb[np.ix_(act_b, act_b)]),
            (eaa[np.ix_(act_a, act_a, act_a, act_a)], eab[np.ix_(act_a, act_a, act_b, act_b)], ebb[np.ix_(act_b, act_b, act_b, act_b)]))


def fci_restricted(ecore, h, eri, nelec, nroots=1):
    from pyscf import fci
    n = h.shape[0]
    if sum(nelec) == 0:
        return ecore
    solver = fci.direct_spin1.FCI()
    solver.verbose = 0
    solver.conv_tol = 1e-12
    e, _ = solver.kernel(h, eri, n, nelec, ecore=ecore, nroots=nroots)
    return e


def fci_unrestricted(ecore, hs, eris, nelec):
    """Pads the smaller spin space with a decoupled, very high orbital so that direct_uhf (one norb) can be used."""
    from pyscf import fci
    ha, hb = hs
    eaa, eab, ebb = eris
    na, nb = ha.shape[0], hb.shape[0]
    n = max(na, nb)
    BIG = 1.0e3

    def pad1(h, k):
        out = np.zeros((n, n))
        out[:k, :k] = h
        for j in range(k, n):
            out[j, j] = BIG
        return out

    def pad2(e, k1, k2):
        out = np.zeros((n, n, n, n))
        out[:k1, :k1, :k2, :k2] = e
        return out
    if sum(nelec) == 0:
        return ecore
    solver = fci.direct_uhf.FCISolver()
    solver.verbose = 0
    solver.conv_tol = 1e-12
    e, _ = solver.kernel((pad1(ha, na), pad1(hb, nb)), (pad2(eaa, na, na), pad2(eab, na, nb), pad2(ebb, nb, nb)), n, nelec, ecore=ecore)
    return e


# ---------------------------------------------------------------------------------------------
# qubit-operator sector blocks by bit manipulation

def sector_block(terms, n, indices):
    """Matrix of a qubit operator restricted to the basis states `indices` (qubit 0 = most significant bit), plus the
    largest amplitude leaking out of the sector."""
    pos = {b: k for k, b in enumerate(indices)}
    d = len(indices)
    M = np.zeros((d, d), dtype=complex)
    leak = {}
    for term, c in terms.items():
        xm = zm = 0
        ny = 0
        for q, p in term:
            bit = 1 << (n - 1 - q)
            if p == "X":
                xm |= bit
            elif p == "Z":
                zm |= bit
            else:
                xm |= bit
                zm |= bit
                ny += 1
        fac = complex(c) * (1j) ** ny
        for b in indices:
            sgn = -1 if bin(b & zm).count("1") % 2 else 1
            t = b ^ xm
            if t in pos:
                M[pos[t], pos[b]] += fac * sgn
            else:
                leak[(t, b)] = leak.get((t, b), 0) + fac * sgn
    mx = max([abs(v) for v in leak.values()], default=0.0)
    return M, mx
