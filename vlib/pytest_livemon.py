"""pytest plugin:  pytest -p vlib.pytest_livemon ...   (PYTHONPATH must contain /verif and the repository under test)."""


def pytest_configure(config):
    from vlib import livemon
    livemon.install()


def pytest_sessionfinish(session, exitstatus):
    from vlib import livemon
    livemon._flush()
