"""pytest plugin:  pytest -p vlib.pytest_livemon ...   (PYTHONPATH must contain /verif and the repository under test).
VERIF_LIVEMON_SEMANTIC = comma-separated property ids whose reference-model monitors are switched on as well (default: none)."""
import os


def pytest_configure(config):
    from vlib import livemon
    livemon.install()
    sem = [x for x in os.environ.get("VERIF_LIVEMON_SEMANTIC", "").split(",") if x]
    if sem:
        livemon.install_semantic(tuple(sem))


def pytest_sessionfinish(session, exitstatus):
    from vlib import livemon
    livemon._flush()
