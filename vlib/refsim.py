"""Reference state-vector / unitary / density-matrix simulator (numpy only).

Independent of Tangelo's translators and of cirq/sympy.  Gate matrices are written from the
standard textbook definitions:

    RX(t)=exp(-i t X/2)  RY(t)=exp(-i t Y/2)  RZ(t)=exp(-i t Z/2)  PHASE(t)=diag(1, e^{it})
    S=PHASE(pi/2)  T=PHASE(pi/4)  XX(t)=exp(-i t XX/2)  SWAP, and "C..." = apply the base gate iff
    every control qubit is |1>.

Index convention: qubit 0 is the MOST significant bit of the amplitude index, i.e. the basis
state with index i has bitstring format(i, "0nb") whose character k is the value of qubit k.
This is what Tangelo calls "lsq_first" for bitstrings ('100' = qubit 0 is 1).
"""
import cmath
import math

import numpy as np

I2 = np.eye(2, dtype=complex)
X = np.array([[0, 1], [1, 0]], dtype=complex)
Y = np.array([[0, -1j], [1j, 0]], dtype=complex)
Z = np.array([[1, 0], [0, -1]], dtype=complex)
H = np.array([[1, 1], [1, -1]], dtype=complex) / math.sqrt(2)
PAULI = {"I": I2, "X": X, "Y": Y, "Z": Z}

SWAP = np.array([[1, 0, 0, 0], [0, 0, 1, 0], [0, 1, 0, 0], [0, 0, 0, 1]], dtype=complex)


def rx(t):
    c, s = math.cos(t / 2), math.sin(t / 2)
    return np.array([[c, -1j * s], [-1j * s, c]], dtype=complex)


def ry(t):
    c, s = math.cos(t / 2), math.sin(t / 2)
    return np.array([[c, -s], [s, c]], dtype=complex)


def rz(t):
    return np.array([[cmath.exp(-0.5j * t), 0], [0, cmath.exp(0.5j * t)]], dtype=complex)


def phase(t):
    return np.array([[1, 0], [0, cmath.exp(1j * t)]], dtype=complex)


def xx(t):
    c, s = math.cos(t / 2), math.sin(t / 2)
    m = np.zeros((4, 4), dtype=complex)
    for i in range(4):
        m[i, i] = c
        m[i, 3 - i] = -1j * s
    return m


PARAM = {"RX", "RY", "RZ", "PHASE", "CRX", "CRY", "CRZ", "CPHASE", "XX"}
SUPPORTED = {"H", "X", "Y", "Z", "S", "T", "RX", "RY", "RZ", "PHASE", "CNOT", "CX", "CY", "CZ", "CH",
             "CRX", "CRY", "CRZ", "CPHASE", "XX", "SWAP", "CSWAP"}


def base_matrix(name, parameter=None):
    """Matrix acting on the target qubit(s) of gate `name` (controls handled separately)."""
    p = None if parameter in ("", None) else float(parameter)
    if name == "H" or name == "CH":
        return H
    if name in ("X", "CNOT", "CX"):
        return X
    if name in ("Y", "CY"):
        return Y
    if name in ("Z", "CZ"):
        return Z
    if name == "S":
        return phase(math.pi / 2)
    if name == "T":
        return phase(math.pi / 4)
    if name == "SDAG":
        return phase(-math.pi / 2)
    if name in ("RX", "CRX"):
        return rx(p)
    if name in ("RY", "CRY"):
        return ry(p)
    if name in ("RZ", "CRZ"):
        return rz(p)
    if name in ("PHASE", "CPHASE"):
        return phase(p)
    if name == "XX":
        return xx(p)
    if name in ("SWAP", "CSWAP"):
        return SWAP
    raise KeyError(f"refsim: unknown gate {name}")


def apply_matrix(state, n, mat, targets, controls=()):
    """Apply `mat` (2^t x 2^t) on `targets` conditioned on all `controls` being 1.

    `state` has shape (2,)*n + extra (extra trailing axes are carried along, which is how whole
    unitaries are computed).  Returns a new array.
    """
    state = np.array(state, dtype=complex, copy=True)
    targets = list(targets)
    controls = list(controls)
    t = len(targets)
    idx = [slice(None)] * state.ndim
    for c in controls:
        idx[c] = 1
    sub = state[tuple(idx)]
    # axes of sub corresponding to targets (controls removed shift the axis numbers)
    removed = sorted(controls)

    def shifted(q):
        return q - sum(1 for c in removed if c < q)

    tax = [shifted(q) for q in targets]
    m = mat.reshape((2,) * (2 * t))
    new = np.tensordot(m, sub, axes=(list(range(t, 2 * t)), tax))
    # tensordot puts the t output axes first; move them back to the target positions
    new = np.moveaxis(new, list(range(t)), tax)
    state[tuple(idx)] = new
    return state


def gate_tuple(g):
    """Normalise a Tangelo Gate (or an already normalised tuple/list) to (name, targets, controls, parameter)."""
    if isinstance(g, (tuple, list)):
        name, tg, ct, par = g
    else:
        name, tg, ct, par = g.name, g.target, g.control, g.parameter
    tg = [int(q) for q in (tg if hasattr(tg, "__iter__") else [tg])]
    ct = [] if ct is None else [int(q) for q in (ct if hasattr(ct, "__iter__") else [ct])]
    return name, tg, ct, par


def apply_gate(state, n, g):
    name, tg, ct, par = gate_tuple(g)
    return apply_matrix(state, n, base_matrix(name, par), tg, ct)


def zero_state(n):
    s = np.zeros((2,) * n, dtype=complex)
    s[(0,) * n] = 1
    return s


def run(gates, n, initial=None):
    """Final state vector (flat, qubit 0 most significant) of a unitary gate list."""
    s = zero_state(n) if initial is None else np.asarray(initial, dtype=complex).reshape((2,) * n)
    for g in gates:
        s = apply_gate(s, n, g)
    return s.reshape(-1)


def unitary(gates, n):
    """Dense 2^n x 2^n unitary of a gate list."""
    d = 2 ** n
    u = np.eye(d, dtype=complex).reshape((2,) * n + (d,))
    for g in gates:
        u = apply_gate(u, n, g)
    return u.reshape(d, d)


def probabilities(vec):
    return np.abs(np.asarray(vec).reshape(-1)) ** 2


def bitstring(i, n):
    return format(i, f"0{n}b") if n else ""


def freq_dict(vec, n, threshold=1e-10):
    p = probabilities(vec)
    return {bitstring(i, n): float(p[i]) for i in range(len(p)) if p[i] >= threshold}


def project(state_flat, n, qubit, outcome):
    """Project qubit on outcome; returns (normalised state or None, probability)."""
    s = np.array(state_flat, dtype=complex).reshape((2,) * n)
    idx = [slice(None)] * n
    idx[qubit] = 1 - outcome
    s[tuple(idx)] = 0
    p = float(np.vdot(s, s).real)
    if p < 1e-28:
        return None, p
    return (s / math.sqrt(p)).reshape(-1), p


# ---------------------------------------------------------------------------------------------
# comparison helpers

def phase_align(a, b):
    """Return b*e^{i phi} with phi chosen to maximise overlap with a (both flat arrays / matrices)."""
    ov = np.vdot(b, a)
    if abs(ov) < 1e-300:
        return b
    return b * (ov / abs(ov))


def dist_up_to_phase(a, b):
    a = np.asarray(a, dtype=complex)
    b = np.asarray(b, dtype=complex)
    if a.shape != b.shape:
        return float("inf")
    return float(np.max(np.abs(a - phase_align(a, b)))) if a.size else 0.0


def dist(a, b):
    a = np.asarray(a, dtype=complex)
    b = np.asarray(b, dtype=complex)
    if a.shape != b.shape:
        return float("inf")
    return float(np.max(np.abs(a - b))) if a.size else 0.0


# ---------------------------------------------------------------------------------------------
# dense Pauli algebra

def pauli_word_matrix(term, n):
    """term: iterable of (index, 'X'|'Y'|'Z'); qubit 0 is the leftmost Kronecker factor."""
    ops = ["I"] * n
    for idx, p in term:
        ops[idx] = p
    m = np.array([[1]], dtype=complex)
    for p in ops:
        m = np.kron(m, PAULI[p])
    return m


def qubit_operator_matrix(terms, n):
    """terms: dict {((idx,'X'),...): coeff}."""
    d = 2 ** n
    m = np.zeros((d, d), dtype=complex)
    for term, c in terms.items():
        m = m + complex(c) * pauli_word_matrix(term, n)
    return m


def apply_pauli_word(vec, term, n):
    s = np.asarray(vec, dtype=complex).reshape((2,) * n)
    for idx, p in term:
        s = apply_matrix(s, n, PAULI[p], [idx])
    return s.reshape(-1)


def expectation(terms, vec, n):
    v = np.asarray(vec, dtype=complex).reshape(-1)
    e = 0j
    for term, c in terms.items():
        e += complex(c) * np.vdot(v, apply_pauli_word(v, term, n))
    return e


# ---------------------------------------------------------------------------------------------
# density matrices (small n)

def embed(mat, targets, controls, n):
    """Full 2^n matrix of a (controlled) gate."""
    d = 2 ** n
    u = np.eye(d, dtype=complex).reshape((2,) * n + (d,))
    u = apply_matrix(u, n, mat, targets, controls)
    return u.reshape(d, d)


def dm_apply_unitary(rho, u):
    return u @ rho @ u.conj().T


def dm_pauli_channel(rho, q, n, px, py, pz):
    out = (1 - px - py - pz) * rho
    for p, P in ((px, X), (py, Y), (pz, Z)):
        if p:
            m = embed(P, [q], [], n)
            out = out + p * (m @ rho @ m.conj().T)
    return out


def dm_depolarize(rho, qubits, n, p):
    """(1-p) rho + p * (I/2^k  (x)  tr_qubits rho): the k-qubit depolarising channel with rate p."""
    k = len(qubits)
    acc = np.zeros_like(rho)
    # uniform average over all 4^k Pauli words equals I/2^k (x) partial trace
    import itertools
    for word in itertools.product("IXYZ", repeat=k):
        term = [(q, w) for q, w in zip(qubits, word) if w != "I"]
        m = pauli_word_matrix(term, n)
        acc = acc + m @ rho @ m.conj().T
    acc = acc / (4 ** k)
    return (1 - p) * rho + p * acc


def dm_measure_dephase(rho, q, n):
    p0 = embed(np.array([[1, 0], [0, 0]], dtype=complex), [q], [], n)
    p1 = embed(np.array([[0, 0], [0, 1]], dtype=complex), [q], [], n)
    return p0 @ rho @ p0 + p1 @ rho @ p1


# ---------------------------------------------------------------------------------------------
# mid-circuit measurement (plain MEASURE gates; classical control lives in props/c10.py)

def run_branch(gates, n, outcomes, initial=None):
    """Follow one measurement branch.  gates may contain ("MEASURE", [q], None, par).

    Returns (normalised final state or None if the branch has zero probability, branch probability)."""
    s = zero_state(n).reshape(-1) if initial is None else np.asarray(initial, dtype=complex).reshape(-1)
    prob = 1.0
    k = 0
    for g in gates:
        name, tg, ct, par = gate_tuple(g)
        if name == "MEASURE":
            s, p = project(s, n, tg[0], int(outcomes[k]))
            k += 1
            prob *= p
            if s is None:
                return None, 0.0
        else:
            s = apply_gate(s.reshape((2,) * n), n, (name, tg, ct, par)).reshape(-1)
    return s, prob
