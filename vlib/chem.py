"""Molecule zoo and small chemistry helpers shared by C04, C07, C08, C12, C13, C14, C15."""
import math

import numpy as np


def chain(n, d, sym="H"):
    return [(sym, (0.0, 0.0, i * d)) for i in range(n)]


def ring(n, r, sym="H"):
    return [(sym, (r * math.cos(2 * math.pi * k / n), r * math.sin(2 * math.pi * k / n), 0.0)) for k in range(n)]


def cluster(rng, n, box=1.8, dmin=0.6, sym="H"):
    pts = []
    tries = 0
    while len(pts) < n and tries < 1000:
        tries += 1
        p = rng.uniform(-box / 2, box / 2, size=3)
        if all(np.linalg.norm(p - q) >= dmin for q in pts):
            pts.append(p)
    if len(pts) < n:
        return chain(n, 0.9, sym)
    return [(sym, tuple(float(x) for x in p)) for p in pts]


def water(r=0.96, ang=104.5):
    a = math.radians(ang) / 2
    return [("O", (0.0, 0.0, 0.0)), ("H", (r * math.sin(a), 0.0, r * math.cos(a))), ("H", (-r * math.sin(a), 0.0, r * math.cos(a)))]


def mol_spec(pr, rng, max_active_sos=8, allow_uhf=True, allow_frozen=True, kinds=None):
    """Random small-molecule specification: dict(xyz, q, spin, basis, frozen, uhf, label)."""
    kinds = kinds or ["H2", "H2", "H3+", "H3", "H4", "H4", "H4+", "H2_321g", "LiH", "H2O", "H4ring", "H4cluster", "H3cluster+",
                      "H4_triplet_frozen", "H2O_triplet_frozen", "OH_uhf_split_frozen", "H2O+_uhf_split_frozen",
                      "H2+", "LiH+_one_active_electron", "H5"]
    for _ in range(50):
        k = pr.choice(kinds)
        basis, q, spin, frozen = "sto-3g", 0, 0, None
        if k == "H2":
            xyz = chain(2, pr.uniform(0.5, 2.2))
        elif k == "H2_321g":
            xyz, basis = chain(2, pr.uniform(0.5, 1.8)), "3-21g"
        elif k == "H3+":
            xyz, q = (ring(3, pr.uniform(0.45, 0.9)) if pr.random() < 0.5 else chain(3, pr.uniform(0.7, 1.3))), 1
        elif k == "H3":
            xyz, spin = chain(3, pr.uniform(0.7, 1.4)), 1
        elif k == "H4":
            xyz = chain(4, pr.uniform(0.7, 1.6))
            spin = pr.choice([0, 0, 2])
        elif k == "H4ring":
            xyz = ring(4, pr.uniform(0.7, 1.2))
            xyz[0] = ("H", (xyz[0][1][0] + 0.1, xyz[0][1][1], 0.05))
        elif k == "H4cluster":
            xyz = cluster(rng, 4)
        elif k == "H3cluster+":
            xyz, q = cluster(rng, 3), 1
        elif k == "H4+":
            xyz, q, spin = chain(4, pr.uniform(0.8, 1.4)), 1, 1
        elif k == "H2+":
            # one active electron
            xyz, q, spin = chain(2, pr.uniform(0.8, 1.6)), 1, 1
        elif k == "LiH+_one_active_electron":
            xyz, q, spin = [("Li", (0, 0, 0)), ("H", (0, 0, pr.uniform(1.4, 2.0)))], 1, 1
            frozen = pr.choice([[0, 4, 5], [0, 3, 4], [0, 5]])
        elif k == "H5":
            # five active electrons (ten spin-orbitals: thorough tiers)
            xyz, spin = chain(5, pr.uniform(0.9, 1.3)), 1
        elif k == "HeH+":
            xyz, q = [("He", (0, 0, 0)), ("H", (0, 0, pr.uniform(0.6, 1.4)))], 1
        elif k == "LiH":
            xyz = [("Li", (0, 0, 0)), ("H", (0, 0, pr.uniform(1.3, 2.0)))]
            frozen = pr.choice([[0, 3, 4], [0, 4, 5], [0, 2, 3], [0, 3, 4, 5]])
        elif k == "H2O":
            xyz = water(pr.uniform(0.9, 1.1), pr.uniform(95, 115))
            frozen = pr.choice([[0, 1, 2], [0, 1, 6], [0, 1, 2, 3], [0, 1, 5]])
        elif k == "H4_triplet_frozen":
            # high-spin reference with frozen orbitals (complete-active-space branch of the classical solver); the singlet lies lower
            xyz, spin = chain(4, pr.uniform(0.8, 1.2)), 2
            frozen = pr.choice([[3], [2]])
        elif k == "H2O_triplet_frozen":
            xyz, spin = water(pr.uniform(0.9, 1.1), pr.uniform(95, 115)), 2
            frozen = pr.choice([[0, 1, 6], [0, 1, 5]])
        elif k == "OH_uhf_split_frozen":
            # spin-polarised UHF reference whose frozen occupied sets differ between alpha and beta
            xyz, spin = [("O", (0.0, 0.0, 0.0)), ("H", (0.0, 0.0, pr.uniform(0.9, 1.1)))], 1
            frozen = pr.choice([[[0, 1], [0, 5]], [[0, 5], [0, 1]], [[0, 1], [0, 4]]])
            spec = {"label": k, "xyz": xyz, "q": 0, "spin": spin, "basis": "sto-3g", "frozen": frozen, "uhf": True}
            if not allow_uhf:
                continue
            return spec
        elif k == "H2O+_uhf_split_frozen":
            xyz, spin, q = water(pr.uniform(0.9, 1.1), pr.uniform(95, 115)), 1, 1
            frozen = pr.choice([[[0, 1, 6], [0, 5, 6]], [[0, 1, 5], [0, 2, 6]]])
            spec = {"label": k, "xyz": xyz, "q": q, "spin": spin, "basis": "sto-3g", "frozen": frozen, "uhf": True}
            if not allow_uhf:
                continue
            return spec
        uhf = allow_uhf and pr.random() < 0.25 and k not in ("H4_triplet_frozen", "H2O_triplet_frozen", "LiH+_one_active_electron")
        if allow_frozen and frozen is None and pr.random() < 0.3 and k in ("H4", "H4ring", "H4cluster", "H2_321g", "H3+", "H4+"):
            nmo = {"H4": 4, "H4ring": 4, "H4cluster": 4, "H2_321g": 4, "H3+": 3, "H4+": 4}[k]
            nocc = {"H4": 2, "H4ring": 2, "H4cluster": 2, "H2_321g": 1, "H3+": 1, "H4+": 2}[k]
            opt = pr.choice(["virt", "int", "interior", "occ"])
            if opt == "virt":
                frozen = [nmo - 1]
            elif opt == "interior" and nmo >= 4:
                frozen = [nmo - 2]
            elif opt == "occ" and nocc >= 2 and spin == 0:
                frozen = [0]
            elif opt == "int" and nocc >= 2 and spin == 0:
                frozen = 1
        if uhf and frozen is not None:
            # UHF takes per-spin lists; alpha and beta lists may differ (here: possibly one more virtual frozen for beta)
            fa = list(range(frozen)) if isinstance(frozen, int) else list(frozen)
            fb = list(fa)
            if pr.random() < 0.5 and k in ("H4", "H4ring", "H4cluster", "H2_321g", "H4+") and 3 not in fb:
                fb = sorted(fb + [3])
            frozen = [fa, fb]
        spec = {"label": k, "xyz": xyz, "q": q, "spin": spin, "basis": basis, "frozen": frozen, "uhf": uhf}
        return spec
    raise RuntimeError("no molecule")


def build(spec):
    from tangelo import SecondQuantizedMolecule
    return SecondQuantizedMolecule(spec["xyz"], q=spec["q"], spin=spec["spin"], basis=spec["basis"],
                                   frozen_orbitals=spec["frozen"], uhf=spec["uhf"])


def fermion_terms(op):
    return {tuple(t): c for t, c in op.terms.items()}
