"""Seeded generators shared by the property checks.

Circuits are plain lists of gate tuples  (name, [targets], [controls] | None, parameter)  so that
they are JSON-serialisable witnesses; `to_circuit` builds the Tangelo object.
"""
import math

ONE_Q_FIXED = ["H", "X", "Y", "Z", "S", "T"]
ONE_Q_ROT = ["RX", "RY", "RZ", "PHASE"]
CTRL_FIXED = ["CNOT", "CX", "CY", "CZ", "CH"]
CTRL_ROT = ["CRX", "CRY", "CRZ", "CPHASE"]
TWO_T = ["XX", "SWAP"]
ALL_NAMES = ONE_Q_FIXED + ONE_Q_ROT + CTRL_FIXED + CTRL_ROT + TWO_T + ["CSWAP"]
PARAM = {"RX", "RY", "RZ", "PHASE", "CRX", "CRY", "CRZ", "CPHASE", "XX"}


def hostile_angle(pr):
    base = pr.choice([0.0, math.pi / 2, -math.pi / 2, math.pi, -math.pi, 2 * math.pi, -2 * math.pi,
                      3 * math.pi, -3 * math.pi, 4 * math.pi, -4 * math.pi] +
                     [k * math.pi / 2 for k in range(-12, 13)])
    off = pr.choice([0.0, 0.0, 1e-5, -1e-5, 1e-3 - 1e-9, -(1e-3 - 1e-9), 0.3, -0.3])
    return base + off


def angle(pr, hostile=0.3):
    if pr.random() < hostile:
        return hostile_angle(pr)
    return pr.uniform(-7, 7)


def random_gate(pr, n, names=None, max_controls=3, hostile=0.3, multi_control_cnot=True):
    """One random gate on n qubits (None if it does not fit)."""
    names = names or ALL_NAMES
    for _ in range(50):
        name = pr.choice(names)
        nt = 2 if name in ("XX", "SWAP", "CSWAP") else 1
        if name in CTRL_FIXED or name in CTRL_ROT or name == "CSWAP":
            nc = pr.choice([1, 1, 1, 2, 3][:max(1, min(5, 2 + max_controls))]) if max_controls > 1 else 1
            nc = min(nc, max_controls)
            if name == "CNOT" and not multi_control_cnot:
                nc = 1
        else:
            nc = 0
        if nt + nc > n:
            continue
        qs = pr.sample(range(n), nt + nc)
        tg, ct = qs[:nt], qs[nt:]
        par = angle(pr, hostile) if name in PARAM else ""
        return (name, tg, ct if nc else None, par)
    return None


def echo_gate(pr, g):
    """A gate likely to merge/cancel with g: same gate with -t, 2pi-t, 4pi-t, or a fresh angle."""
    name, tg, ct, par = g
    if name in PARAM:
        par = pr.choice([-par, 2 * math.pi - par, 4 * math.pi - par, -2 * math.pi - par, angle(pr), par])
    return (name, list(tg), None if ct is None else list(ct), par)


def random_gates(pr, n, n_gates, names=None, max_controls=3, hostile=0.3, echo=0.0, multi_control_cnot=True):
    out = []
    while len(out) < n_gates:
        if out and pr.random() < echo:
            out.append(echo_gate(pr, out[-1]))
            continue
        g = random_gate(pr, n, names, max_controls, hostile, multi_control_cnot)
        if g is None:
            # width too small for the chosen set: fall back to one-qubit gates
            g = random_gate(pr, n, ONE_Q_FIXED + ONE_Q_ROT, 0, hostile)
        out.append(g)
    return out


def width_of(gates):
    m = -1
    for name, tg, ct, par in gates:
        m = max([m] + list(tg) + list(ct or []))
    return m + 1


def to_gate(g):
    from tangelo.linq import Gate
    name, tg, ct, par = g
    return Gate(name, list(tg), None if ct is None else list(ct), par)


def to_circuit(gates, n_qubits=None):
    from tangelo.linq import Circuit
    return Circuit([to_gate(g) for g in gates], n_qubits=n_qubits)


def from_circuit(circ):
    return [(g.name, list(g.target), None if g.control is None else list(g.control), g.parameter) for g in circ]


def nontrivial_circuit(gates):
    """>= 2 entangling or parameterised gates."""
    k = 0
    for name, tg, ct, par in gates:
        if name in PARAM or ct or len(tg) > 1:
            k += 1
    return k >= 2


def random_state(rng, n):
    import numpy as np
    v = rng.normal(size=2 ** n) + 1j * rng.normal(size=2 ** n)
    return v / np.linalg.norm(v)


def random_qubit_terms(pr, n, n_terms, complex_coeffs=False, identity=True, paulis="XYZ"):
    """dict {term: coeff}, term = tuple of (idx, P) sorted by idx."""
    terms = {}
    tries = 0
    while len(terms) < n_terms and tries < 10 * n_terms + 10:
        tries += 1
        k = pr.randint(0 if identity else 1, n)
        idxs = sorted(pr.sample(range(n), k))
        t = tuple((i, pr.choice(paulis)) for i in idxs)
        c = pr.uniform(-2, 2)
        if complex_coeffs and pr.random() < 0.6:
            c = complex(c, pr.uniform(-2, 2))
        terms[t] = c
    return terms


def to_qubit_operator(terms):
    from tangelo.toolboxes.operators import QubitOperator
    op = QubitOperator()
    for t, c in terms.items():
        op += QubitOperator(tuple(t), c)
    return op


def terms_of(op):
    return {tuple(t): c for t, c in op.terms.items()}
