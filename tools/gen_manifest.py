#!/opt/veriftools/pyvenv/bin/python
"""Regenerate MANIFEST.json from tools/manifest_data.py (kept in one place so it always validates)."""
import json, os, sys
sys.path.insert(0, os.path.dirname(os.path.abspath(__file__)))
from manifest_data import CHECKS, NOT_APPLICABLE, FIX_COMMITS

man = {
 "version": 1,
 "setup_cmd": "mkdir -p out evidence && /venv/bin/python -m compileall -q vlib props tools >/dev/null 2>&1; /venv/bin/python -c \"import sys; sys.path[:0]=['/repo','/verif']; import tangelo, vlib.refsim, vlib.fock, vlib.harness; print('verif setup ok', tangelo.__file__)\"",
 "hooks": {
  "guard": "TANGELO_VERIF",
  "enable": "no source hooks in /repo: every monitor is installed from /verif on the imported classes/functions (class-attribute wrappers, sys.monitoring reach counters); TANGELO_VERIF=1 is exported by ./check for its shard processes only",
  "baseline_off_cmd": "cd /repo && /venv/bin/python -m pytest -ra -q -p no:cacheprovider --timeout=900 --continue-on-collection-errors",
  "source_commits": [],
  "add_only": True
 },
 "engines": [{"name": "vlib", "path": "vlib/", "serves_properties": [c["property_id"] for c in CHECKS],
              "kind_free_text": "runtime monitoring: reference-model monitors (numpy state-vector/density-matrix simulator, Fock-space algebra, dense Pauli algebra, PySCF primitives), invariants at class-level hooks, history checkers with shadow models, conservation checkers, statistical monitors; sys.monitoring branch-reach counters"}],
 "checks": CHECKS,
 "notes": "All checks: ./check <id> [--tier quick|thorough] (VERIF_SEED / VERIF_TIER honoured). exit 0 held, 1 VIOLATION, 3 inconclusive. Repository defects repaired by fix: commits are listed in known_findings.json (status fixed); " + "; ".join(FIX_COMMITS),
 "not_applicable": NOT_APPLICABLE,
}
json.dump(man, open(os.path.join(os.path.dirname(os.path.abspath(__file__)), "..", "MANIFEST.json"), "w"), indent=1)
import jsonschema
jsonschema.validate(man, json.load(open("/root/.vp/MANIFEST.schema.json")))
print("MANIFEST ok:", len(CHECKS), "checks,", len(NOT_APPLICABLE), "not applicable")
