#!/bin/bash
# tools/keep_mutant.sh <src dir> <seeded name> <property> "<test paths>" "<caught by / notes>"
# Confirms in a scratch worktree that the relevant existing tests still pass with the patch, then files the mutant under /verif/seeded/.
set -u
SRC="$1"; NAME="$2"; PROP="$3"; TESTS="$4"; NOTE="$5"
WT=/tmp/mut/confirm_$NAME
git -C /repo worktree add -q "$WT" HEAD || exit 2
( cd "$WT" && git apply "$SRC/patch.diff" ) || { echo "patch failed"; git -C /repo worktree remove --force "$WT"; exit 2; }
OUT=$(/verif/tools/baseline_check.py --repo "$WT" -n 8 $TESTS 2>&1 | head -5)
echo "$OUT"
git -C /repo worktree remove --force "$WT"
mkdir -p /verif/seeded/$NAME
cp "$SRC/patch.diff" "$SRC/demo.py" /verif/seeded/$NAME/
/venv/bin/python - "$SRC/meta.json" "$NAME" "$PROP" "$TESTS" "$NOTE" "$OUT" <<'PY'
import json, sys
src, name, prop, tests, note, out = sys.argv[1:7]
try:
    m = json.load(open(src))
except Exception:
    m = {}
m.update({"property": prop, "id": name,
          "confirmed": {"tests_with_patch": f"tools/baseline_check.py --repo <scratch worktree with patch> -n 8 {tests} -> {out.splitlines()[0] if out else ''}",
                        "demo": "demo.py exits 0 on the unpatched tree and 1 with the patch applied (tools/eval_mutant.sh)",
                        "check": note}})
json.dump(m, open(f"/verif/seeded/{name}/meta.json", "w"), indent=1)
PY
echo "kept $NAME"
