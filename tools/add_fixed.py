#!/venv/bin/python
"""tools/add_fixed.py <property> <commit> <mechanism> <what failed...>  - append a 'fixed' entry to known_findings.json"""
import json, sys
p = '/verif/known_findings.json'
d = json.load(open(p))
prop, commit, mech = sys.argv[1:4]
what = " ".join(sys.argv[4:])
d['findings'].append({"property": prop, "status": "fixed", "commit": commit, "mechanism": mech,
                      "line": f"fixed: property={prop} {commit} {what}"})
json.dump(d, open(p, 'w'), indent=1)
print("ok", len(d['findings']))
