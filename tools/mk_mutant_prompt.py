#!/venv/bin/python
"""Print the prompt given to a fresh sub-agent for property <id> (only the property text + a scratch worktree)."""
import json, sys
pid, wt, outdir = sys.argv[1], sys.argv[2], sys.argv[3]
tests = sys.argv[4] if len(sys.argv) > 4 else "tangelo"
p = [json.loads(l) for l in open("/verif/properties.jsonl") if json.loads(l)["id"] == pid][0]
print(f"""You are helping to evaluate a verification framework by producing realistic, subtle bugs ("seeded changes") for the open-source Python library Tangelo (goodchemistryco/Tangelo, quantum-chemistry workflows: circuits, simulators, fermion-to-qubit mappings, ansatz generators, VQE, DMET...).

You have your own scratch git worktree of the repository at: {wt}
Work ONLY inside {wt} and write your deliverables to {outdir} (create it). Never touch /repo or /verif (do not read /verif either). There is no network. The Python interpreter with all dependencies is /venv/bin/python (cirq, sympy, pyscf, openfermion, numpy, scipy are installed; qulacs/qiskit are NOT). To make Python import the worktree's code run commands from inside the worktree with PYTHONPATH={wt} (verify with: cd {wt} && PYTHONPATH={wt} /venv/bin/python -c "import tangelo; print(tangelo.__file__)").

The semantic property that should hold for Tangelo:

  Title: {p['title']}
  Statement: {p['statement']}
  Quantified over: {p['quantifier']['text']}
  Relevant files: {', '.join(p['anchors']['files'])}
  Mechanisms meant to make it hold: {json.dumps(p['anchors']['mechanism'])}

YOUR TASK: produce TWO independent changes (mutants), each at a different site/mechanism, to the library source (not tests) that each BREAK this property while the code still imports and the EXISTING test-suite still passes. Prefer changes that look like plausible programmer mistakes or "optimisations" (wrong index/sign in a rarely taken branch, missing copy, stale cache, off-by-one in a table, wrong period/threshold, forgotten case, two sites that each look fine alone) and that need something specific to manifest: an unusual input (e.g. a particular gate type with 2+ controls, negative or >2*pi angle, odd register size, index gaps, complex coefficients), a multi-step sequence of operations, a particular configuration/option - NOT ones that ordinary use or the existing tests would expose at once. Do not make changes that merely raise exceptions everywhere or break the API.

For EACH mutant k in {{1,2}} deliver in {outdir}/m<k>/ :
  - patch.diff : output of `git -C {wt} diff` for that mutant alone (relative to the worktree's HEAD; each patch must apply on its own to a clean checkout with `git apply`). Reset the worktree (git -C {wt} checkout -- .) between mutants. NEVER use `git stash` (the stash is shared with other people's worktrees of the same repository): save diffs to files with `git diff > file` and restore with `git apply`.
  - demo.py : a small standalone program that exits 0 / prints PASS when the property holds for its chosen input and exits 1 / prints FAIL when it does not, run as `cd <repo> && PYTHONPATH=<repo> /venv/bin/python demo.py`. It must FAIL with your patch applied and PASS on the unpatched worktree. It should check the property itself (against independent maths, e.g. numpy linear algebra), not the implementation detail you changed.
  - meta.json : {{"property": "{pid}", "summary": "<one sentence: what was changed>", "needs_to_manifest": "<what specific input/sequence/configuration is needed>", "files": [...], "tests_run": "<command(s) you ran and the result>"}}

You MUST check that the existing tests still pass with each patch applied, at least the directly relevant test directories, e.g.:  cd {wt} && PYTHONPATH={wt} OMP_NUM_THREADS=2 /venv/bin/python -m pytest {tests} -q -x -p no:cacheprovider -n 4 --timeout=900   (some tests are skipped because optional backends are missing - that is fine; if a test already fails WITHOUT your patch it does not count against you: compare with the unpatched result). The machine is shared: do not use more than 4 pytest workers, and do not run the whole-repository test suite more than once per mutant.

Finish by replying with a short summary (what each mutant changes, what it needs to manifest, test results). Leave the worktree clean (git checkout -- .) when done.""")
