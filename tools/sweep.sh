#!/bin/bash
# tools/sweep.sh <tier> "<seeds>" [props...] : run checks for several VERIF_SEED values, print one line per run (exit code + verdict line)
TIER="$1"; SEEDS="$2"; shift 2
PROPS="${@:-C01 C02 C03 C04 C05 C06 C07 C08 C09 C10 C11 C12 C13 C14 C15 C16 C17 C18 C19 C20}"
for s in $SEEDS; do
  for p in $PROPS; do
    t0=$(date +%s)
    out=$(VERIF_SEED=$s ./check $p --tier $TIER 2>&1); rc=$?
    t1=$(date +%s)
    echo "seed=$s $p rc=$rc wall=$((t1-t0))s :: $(echo "$out" | grep -E "HELD|VIOLATED|INCONCLUSIVE|KNOWN-FINDING" | head -3 | tr '\n' ' ' | cut -c1-400)"
    if [ $rc -ne 0 ]; then echo "$out" | grep -E "sub-check|VIOLATION|INCONCL" | head -8; fi
  done
done
