#!/venv/bin/python
"""Summarise out/replays/<id>/*.json by (sub, msg)."""
import json, glob, sys, collections
pid = sys.argv[1]
groups = collections.defaultdict(list)
for f in glob.glob(f"/verif/out/replays/{pid}/*.json"):
    d = json.load(open(f))
    groups[(d["sub"], d["msg"][:110])].append((f, d))
for (sub, msg), lst in sorted(groups.items(), key=lambda kv: -len(kv[1])):
    print(f"== {len(lst):4d}  {sub}: {msg}")
    f, d = min(lst, key=lambda fd: len(json.dumps(fd[1]["witness"])))
    print("     smallest witness:", f)
    print("     ", json.dumps(d["witness"])[:int(sys.argv[2]) if len(sys.argv) > 2 else 600])
