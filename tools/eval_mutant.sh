#!/bin/bash
# tools/eval_mutant.sh <mutant dir containing patch.diff, demo.py> <property id> [tier]
# Applies the patch in a scratch worktree of /repo (HEAD), checks the demo on both trees and runs ./check against the scratch tree
# (VERIF_REPO=<worktree>; evidence of such runs goes to out/evidence_scratch, never to evidence/).
set -u
M="$1"; P="$2"; TIER="${3:-quick}"
WT=/tmp/mut/eval_$$
git -C /repo worktree add -q "$WT" HEAD || exit 2
( cd "$WT" && PYTHONPATH="$WT" /venv/bin/python "$M/demo.py" >/tmp/demo_clean_$$.log 2>&1 ); c=$?
( cd "$WT" && git apply "$M/patch.diff" ) || { echo "patch does not apply"; git -C /repo worktree remove --force "$WT"; exit 2; }
( cd "$WT" && PYTHONPATH="$WT" /venv/bin/python "$M/demo.py" >/tmp/demo_mut_$$.log 2>&1 ); m=$?
( cd /verif && VERIF_OUT=/tmp/mut/evalout_$$ VERIF_REPO="$WT" ./check "$P" --tier "$TIER" > /tmp/check_mut_$$.log 2>&1 ); k=$?
rm -rf /tmp/mut/evalout_$$
git -C /repo worktree remove --force "$WT"
echo "demo_clean_exit=$c demo_mutant_exit=$m check_exit=$k"
grep -m4 "sub-check\|INCONCL" /tmp/check_mut_$$.log
rm -f /tmp/demo_clean_$$.log /tmp/demo_mut_$$.log /tmp/check_mut_$$.log
