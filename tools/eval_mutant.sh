#!/bin/bash
# tools/eval_mutant.sh <mutant dir containing patch.diff, demo.py> <property id> [tier]
# 1. demo passes on clean /repo   2. apply patch to /repo   3. demo fails   4. run ./check   5. revert
set -u
M="$1"; P="$2"; TIER="${3:-quick}"
cd /repo || exit 2
if ! git diff --quiet; then echo "repo dirty"; exit 2; fi
PYTHONPATH=/repo /venv/bin/python "$M/demo.py" >/tmp/demo_clean.log 2>&1; c=$?
git apply "$M/patch.diff" || { echo "patch does not apply"; exit 2; }
PYTHONPATH=/repo /venv/bin/python "$M/demo.py" >/tmp/demo_mut.log 2>&1; m=$?
cd /verif && ./check "$P" --tier "$TIER" > /tmp/check_mut.log 2>&1; k=$?
git -C /repo checkout -- .
echo "demo_clean_exit=$c demo_mutant_exit=$m check_exit=$k"
grep -m3 "sub-check\|INCONCL" /tmp/check_mut.log
