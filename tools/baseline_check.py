#!/venv/bin/python
"""Run the repository's own test-suite (hooks OFF) and compare with /root/.vp/BASELINE.json stable_pass.

usage: tools/baseline_check.py [-n WORKERS] [pytest path filters...]
Exit 0 iff every stable_pass test that was selected passed.
"""
import json, os, subprocess, sys, tempfile, xml.etree.ElementTree as ET

def main():
    args = sys.argv[1:]
    n = "16"
    repo = "/repo"
    while args[:1] and args[0] in ("-n", "--repo"):
        if args[0] == "-n":
            n = args[1]
        else:
            repo = args[1]
        args = args[2:]
    base = json.load(open("/root/.vp/BASELINE.json"))
    stable = set(base["stable_pass"])
    fd, xml = tempfile.mkstemp(suffix=".xml"); os.close(fd)
    env = dict(os.environ)
    env.pop("TANGELO_VERIF", None)
    env.setdefault("OMP_NUM_THREADS", "2")
    cmd = ["/venv/bin/python", "-m", "pytest", "-q", "-p", "no:cacheprovider", "--timeout=900",
           "--continue-on-collection-errors", "-n", n, f"--junitxml={xml}"] + args
    env["PYTHONPATH"] = repo
    r = subprocess.run(cmd, cwd=repo, env=env, stdout=subprocess.PIPE, stderr=subprocess.STDOUT)
    passed, failed = set(), set()
    for tc in ET.parse(xml).getroot().iter("testcase"):
        name = f"{tc.get('classname')}::{tc.get('name')}"
        bad = any(ch.tag in ("failure", "error", "skipped") for ch in tc)
        (failed if bad else passed).add(name)
    os.remove(xml)
    selected = passed | failed
    lost = sorted((stable & selected) - passed)
    missing = sorted(stable - selected) if not args else []
    print(f"ran={len(selected)} passed={len(passed)} stable_pass={len(stable)} stable_selected={len(stable & selected)} lost={len(lost)} missing={len(missing)}")
    for t in lost: print("LOST", t)
    for t in missing[:20]: print("MISSING", t)
    print(r.stdout.decode(errors="replace")[-1500:] if lost else "")
    return 1 if lost or missing else 0
sys.exit(main())
