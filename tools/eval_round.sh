#!/bin/bash
# tools/eval_round.sh <round> <prop> : evaluate /tmp/mut/out<round>_<prop>/m{1,2} (demo on both trees + quick check on a scratch worktree)
R="$1"; P="$2"
for k in 1 2; do
  D=/tmp/mut/out${R}_$P/m$k
  [ -f "$D/patch.diff" ] || { echo "$P m$k: no patch"; continue; }
  echo "== $P m$k: $(/venv/bin/python -c "import json;print(json.load(open('$D/meta.json')).get('summary','')[:200])" 2>/dev/null)"
  /verif/tools/eval_mutant.sh "$D" "$P" quick 2>&1 | sed "s/^/   $P m$k: /"
done
