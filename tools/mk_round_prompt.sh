#!/bin/bash
# tools/mk_round_prompt.sh <prop> <round> "<tests>"  -> creates worktree /tmp/mut/wt<round>_<prop> and /tmp/mut/prompt<round>_<prop>.txt
set -e
P="$1"; R="$2"; T="$3"
WT=/tmp/mut/wt${R}_$P
[ -d "$WT" ] || git -C /repo worktree add -q --detach "$WT" HEAD
/verif/tools/mk_mutant_prompt.py "$P" "$WT" /tmp/mut/out${R}_$P "$T" > /tmp/mut/prompt${R}_$P.txt
/venv/bin/python - "$P" >> /tmp/mut/prompt${R}_$P.txt <<'PY'
import json, glob, sys
p = sys.argv[1]
print("\n\nThis is a LATER round. Earlier seeded changes for this property already used the following ideas - do NOT reuse them or trivial variants of them; pick different sites / mechanisms:")
for f in sorted(glob.glob(f"/verif/seeded/{p}_*/meta.json")):
    m = json.load(open(f))
    print("  -", m.get("summary", "").strip())
print("\nIMPORTANT for the shared machine: always prefix test / python commands with OMP_NUM_THREADS=2 OPENBLAS_NUM_THREADS=2, and use at most 3 pytest workers (-n 3). Do not run the whole-repository test suite at all if the relevant test directories (every test file that imports or exercises the code you changed - find them with grep) have been run; whole-suite runs take over an hour on this machine.")
PY
echo /tmp/mut/prompt${R}_$P.txt
