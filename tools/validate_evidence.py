#!/opt/veriftools/pyvenv/bin/python
import json, sys, glob, jsonschema
sch = json.load(open("/root/.vp/EVIDENCE.schema.json"))
bad = 0
for f in sorted(glob.glob("/verif/evidence/*.json")):
    try:
        jsonschema.validate(json.load(open(f)), sch); print("ok ", f)
    except Exception as e:
        bad += 1; print("BAD", f, str(e)[:300])
sys.exit(1 if bad else 0)
