def chk(pid, text, note, technique, ref):
    return {"property_id": pid,
            "quick_cmd": f"./check {pid} --tier quick",
            "thorough_cmd": f"./check {pid} --tier thorough",
            "evidence_file": f"/verif/evidence/{pid}.json",
            "replay_cmd_template": f"./check {pid} --replay {{path}}",
            "engine": "vlib",
            "level_claimed": {"category": "exploration", "text": text, "design_ref": ref},
            "level_note": note,
            "technique": technique}

CHECKS = [
 chk("C01", "Every observed Backend.simulate / translate_circuit call on seeded random and exhaustively placed single-gate circuits (cirq numeric, sympy numeric and symbolic, exact and sampled) is replayed on an independent numpy simulator and compared exactly, incl. advertised index order; held = no disagreement on the executions observed, with a gate x controls x backend coverage table and branch reach in evidence.",
     "Trusted: vlib.refsim gate matrices (textbook definitions), numpy, scipy chi-square; only cirq and sympy are installed.",
     "runtime reference-model monitor (independent state-vector simulator) + statistical monitor for sampled mode", "DESIGN.md section 4 C01"),
]

ALL = [f"C{i:02d}" for i in range(1, 21)]
NOT_APPLICABLE = [{"property_id": p, "reason": "check not built yet in this session (planned in DESIGN.md section 4); nothing is claimed for it"}
                  for p in ALL if p not in {c["property_id"] for c in CHECKS}]
FIX_COMMITS = []
