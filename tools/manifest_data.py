def chk(pid, text, note, technique, ref):
    return {"property_id": pid,
            "quick_cmd": f"./check {pid} --tier quick",
            "thorough_cmd": f"./check {pid} --tier thorough",
            "evidence_file": f"/verif/evidence/{pid}.json",
            "replay_cmd_template": f"./check {pid} --replay {{path}}",
            "engine": "vlib",
            "level_claimed": {"category": "exploration", "text": text, "design_ref": ref},
            "level_note": note,
            "technique": technique}

CHECKS = [
 chk("C01", "Every observed Backend.simulate / translate_circuit call on seeded random and exhaustively placed single-gate circuits (cirq numeric, sympy numeric and symbolic, exact and sampled) is replayed on an independent numpy simulator and compared exactly, incl. advertised index order; held = no disagreement on the executions observed, with a gate x controls x backend coverage table and branch reach in evidence.",
     "Trusted: vlib.refsim gate matrices (textbook definitions), numpy, scipy chi-square; only cirq and sympy are installed.",
     "runtime reference-model monitor (independent state-vector simulator) + statistical monitor for sampled mode", "DESIGN.md section 4 C01"),
 chk("C02", "Each seeded (operator, circuit, initial state, desired mid-circuit outcome) is evaluated through every expectation path of the real code (cirq native, exact-frequency route, generic statevector loop of a user-defined Backend subclass, sampled variants, sympy, variance / standard error) and every returned number is compared with dense linear algebra on the reference state; sampled results with a 6-sigma rule. Held = no disagreement on the observed calls; evidence lists evaluations per path and branch reach of all seven anchored mechanisms.",
     "Trusted: vlib.refsim + dense Pauli algebra, numpy. Statistical clauses are seeded and use 6-sigma bounds.",
     "runtime reference-model monitor over the cross product of evaluation paths + statistical monitor", "DESIGN.md section 4 C02"),
 chk("C09", "Seeded random circuits with hostile angles / echo gates are pushed through inverse, merge_rotations, remove_redundant_gates, remove_small_rotations, simplify (function and method forms), split/stack/trim/reindex, copy, +, *; the dense unitary of every output is compared with the prescribed function of the input's unitary (exact, up to phase, or within threshold x dropped gates), operands are snapshotted around every out-of-place call; all Clifford angles and gate-equality pairs are enumerated.",
     "Trusted: vlib.refsim unitaries on <= 6 qubits; the dropped-rotation allowance is threshold x number of removed gates.",
     "runtime reference-model monitor (dense unitaries) + operand snapshot invariants", "DESIGN.md section 4 C09"),
 chk("C11", "History checker: seeded sequences of circuit-building, transformation and read-only operations run on real Circuit objects; after every step size/width/counts/arity counts/flags/depth are recomputed from list(circuit) and compared, copy() must succeed and be equal, rejected add_gate must leave no trace, read-only operations are bracketed by full snapshots; plus a Gate-constructor fuzz of malformed index specifications.",
     "Trusted: recomputation from the public iterator; depth oracle = ASAP schedule; shadow flag for 'never given a fixed size'.",
     "runtime history checker with shadow model + invariants at the API boundary", "DESIGN.md section 4 C11"),
 chk("C03", "Every observed fermion_to_qubit_mapping / combinatorial call is compared with an explicit Fock-space matrix algebra: canonical anticommutation relations exhaustively over all ordered pairs of ladder operators (JW/BK/JKMN, both orderings, odd sizes), adjoint / product / linearity / constants on seeded random operators incl. operators not touching the highest index, full spectra of random Hermitian Hamiltonians, scBK spectra and algebra in every parity sector, HCB as the projected matrix on the paired space, combinatorial spectra for every (n_alpha, n_beta).",
     "Trusted: vlib.fock ladder matrices built by bit manipulation, dense Pauli algebra, numpy eigvalsh. Registers <= 6 (8) spin-orbitals.",
     "runtime reference-model monitor (independent Fock-space algebra) with exhaustive small-space enumeration", "DESIGN.md section 4 C03"),
 chk("C05", "Exhaustive agreement monitor between state encoder and operator encoder: all 2^n occupation vectors (n <= 8 quick, <= 12 thorough) x JW/BK/scBK/JKMN x both orderings, and all admissible (n_spinorbitals, n_electrons, spin) incl. negative and None spin; the produced circuit must be X gates only and every encoded number operator must evaluate to exactly the requested occupation on the prepared basis state.",
     "Trusted: own Z-string evaluator; the operator encoder itself is C03's subject.",
     "runtime exhaustive enumeration with an independent basis-state evaluator", "DESIGN.md section 4 C05"),
 chk("C10", "Reference interpreter over the numpy simulator follows every outcome branch of seeded circuits with MEASURE / CMEASURE (dictionary, function, class, nested, repeat-until-success) and is compared with every observed conditioned, density-matrix, sampled and single-shot simulate call: branch states, distributions, recorded success probabilities, applied gates, sum of probabilities, mixture = diag(rho), marginals of all_frequencies, chi-square on sampled joint outcomes.",
     "Trusted: vlib.refsim projector semantics; controls returned gates are executed immediately after their measurement; cirq only.",
     "runtime reference interpreter + conservation checks over recorded histograms + statistical monitor", "DESIGN.md section 4 C10"),
 chk("C16", "Real binary operators of FermionOperator / QubitOperator / QubitHamiltonian (Tangelo and openfermion instances mixed, scalars on either side) are invoked on shared operand pools in aliasing chains of 1-6 operations; operands are snapshotted around every call and results compared with dense Fock / Pauli matrix algebra carried along as a shadow; MultiformOperator products, collapse and do_commute compared with the symbolic product and an independent term-wise symplectic test.",
     "Trusted: vlib.fock (3 modes) and dense Pauli matrices (3-5 qubits). do_commute oracle is sound both ways (True => zero commutator; term-wise commuting => True).",
     "runtime reference-model monitor + operand snapshot invariants + aliasing-history checker with shadow model", "DESIGN.md section 4 C16"),
]

ALL = [f"C{i:02d}" for i in range(1, 21)]
NOT_APPLICABLE = [{"property_id": p, "reason": "check not built yet in this session (planned in DESIGN.md section 4); nothing is claimed for it"}
                  for p in ALL if p not in {c["property_id"] for c in CHECKS}]
FIX_COMMITS = []
