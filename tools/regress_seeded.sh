#!/bin/bash
# tools/regress_seeded.sh [jobs] : re-evaluate every kept seeded change against its property's quick check (scratch worktrees); prints one line each
J="${1:-4}"
cd /verif
ls seeded | xargs -P "$J" -I{} bash -c 'p=$(echo {} | cut -d_ -f1); r=$(tools/eval_mutant.sh /verif/seeded/{} $p 2>&1 | grep -o "demo_clean_exit=[0-9]* demo_mutant_exit=[0-9]* check_exit=[0-9]*"); echo "{} $r"'
