"""C19 - noisy simulation applies exactly the specified channels.

Monitor shape: reference-model monitor on density matrices.  For each generated circuit and noise
assignment the final density matrix of the real code (backend._current_state after a noisy run, and
cirq.DensityMatrixSimulator on the translated circuit) is compared with a reference obtained by
applying, after each noisy gate in order, per-qubit Pauli channels on targets then controls and/or
the k-qubit depolarising channel; plus statistical monitors for sampled frequencies/expectations and
a rejection monitor for malformed specifications.
"""
import math

import numpy as np

from vlib import gen, refsim
from vlib.harness import case_rng

PROPERTY = "C19"
RULE = ("cases = seeded circuits on 1-3 (thorough 4) qubits over the full gate set with 1-3-qubit and multi-controlled gates x random "
        "noise assignments (Pauli px,py,pz and/or depolarising p on 1-4 gate names, both on one gate in either insertion order, rates "
        "incl. 0 and 1), optional initial statevector; zero-rate models; malformed specifications. distinct = hash(circuit, noise "
        "model); non-trivial = >= 2 noisy gate occurrences of which one acts on >= 2 qubits")
ASSUMPTIONS = ["reference channels: Pauli channel rho -> (1-px-py-pz) rho + px X rho X + ...; k-qubit depolarising (1-p) rho + p I/2^k (x) tr_k rho",
               "sampled clauses: chi-square p>1e-9 against diag(rho), expectation within 6 sigma of tr(rho H)"]
ANCHORS = [
    ("tangelo/linq/noisy_simulation/noise_models.py", "add_quantum_error", "validation and storage of error specifications"),
    ("tangelo/linq/translator/translate_cirq.py", "translate_c_to_cirq", "channel insertion after each noisy gate"),
    ("tangelo/linq/target/target_cirq.py", "simulate_circuit", "density-matrix simulation and sampling"),
    ("tangelo/linq/target/target_cirq.py", "expectation_value_from_prepared_state", "noisy expectation"),
    ("tangelo/linq/target/backend.py", "__init__", "rejecting noise on backends without support / requiring shots"),
]
REQUIRED = {"density_matrix_backend": 38, "density_matrix_translated": 40, "zero_noise_limit": 4, "sampled_frequencies": 20, "noisy_expectation": 20, "malformed_rejected": 5}
BUDGET = {"quick": 240, "thorough": 2400}


def cases(tier, seed):
    n = 96 if tier == "quick" else 20000
    out = [{"sub": "circ", "i": i} for i in range(n)] + [{"sub": "malformed"}]
    # directed: every controllable gate name with 1 and 2 controls, noise keyed by that name, both channel kinds
    out += [{"sub": "model_history", "i": i} for i in range(6 if tier == "quick" else 1000)]
    for name in gen.CTRL_FIXED + gen.CTRL_ROT + ["CSWAP"]:
        for nc in (1, 2):
            out.append({"sub": "directed", "name": name, "nc": nc})
    return out


def gen_noise(pr, names_in_circuit):
    spec = {}
    k = pr.randint(1, min(4, max(1, len(names_in_circuit))))
    for nm in pr.sample(sorted(names_in_circuit), k):
        kinds = pr.choice([["pauli"], ["depol"], ["pauli", "depol"], ["depol", "pauli"]])
        lst = []
        for kd in kinds:
            if kd == "pauli":
                r = pr.random()
                if r < 0.15:
                    p = [0.0, 0.0, 0.0]
                elif r < 0.25:
                    p = pr.choice([[1.0, 0.0, 0.0], [0.0, 0.0, 1.0], [0.5, 0.5, 0.0]])
                else:
                    p = [pr.uniform(0, 0.3), pr.uniform(0, 0.3), pr.uniform(0, 0.3)]
                lst.append(("pauli", p))
            else:
                r = pr.random()
                lst.append(("depol", 0.0 if r < 0.15 else (1.0 if r < 0.2 else pr.uniform(0, 0.9))))
        spec[nm] = lst
    return spec


def mk_noise_model(spec):
    from tangelo.linq.noisy_simulation import NoiseModel
    nm = NoiseModel()
    for gname, lst in spec.items():
        for kind, p in lst:
            nm.add_quantum_error(gname, kind, p)
    return nm


def reference_rho(gates, n, spec, init=None):
    psi = refsim.zero_state(n).reshape(-1) if init is None else np.asarray(init, dtype=complex)
    rho = np.outer(psi, psi.conj())
    for g in gates:
        name, tg, ct, par = refsim.gate_tuple(g)
        u = refsim.embed(refsim.base_matrix(name, par), tg, ct, n)
        rho = u @ rho @ u.conj().T
        for kind, p in spec.get(name, []):
            if kind == "pauli":
                for q in list(tg) + list(ct):
                    rho = refsim.dm_pauli_channel(rho, q, n, *p)
            else:
                rho = refsim.dm_depolarize(rho, list(tg) + list(ct), n, p)
    return rho


def run_circ(case, ctx):
    import cirq
    from tangelo.linq import get_backend, translate_circuit
    from props.c01 import chi2_ok
    rng, pr, s = case_rng(ctx.seed, "C19", "circ", case["i"])
    n = pr.randint(1, 3 if ctx.tier == "quick" else 4)
    gates = gen.random_gates(pr, n, pr.randint(1, 8), max_controls=3, hostile=0.15)
    # identity-valued occurrences (angle exactly 0, as in a variational circuit at its zero starting point) are occurrences all the same
    gates = [(nm, tg, ct, (pr.choice([0.0, 0.0, 0, -0.0]) if nm in gen.PARAM and pr.random() < 0.2 else par)) for nm, tg, ct, par in gates]
    names = {g[0] for g in gates}
    spec = gen_noise(pr, names)
    if case["i"] % 8 == 0:
        spec = {k: [(kd, [0.0, 0.0, 0.0] if kd == "pauli" else 0.0) for kd, p in v] for k, v in spec.items()}
    init = gen.random_state(rng, n) if pr.random() < 0.3 else None
    circ = gen.to_circuit(gates, n_qubits=n)
    nm = mk_noise_model(spec)
    rho = reference_rho(gates, n, spec, init)
    wit = {"gates": gates, "n_qubits": n, "noise": spec, "initial": init}
    occ = [(g[0], len(g[1]) + len(g[2] or [])) for g in gates if g[0] in spec]
    if len(occ) >= 2 and any(k >= 2 for _, k in occ):
        ctx.nontrivial((gates, sorted((k, repr(v)) for k, v in spec.items()), init is not None))
    ctx.sample({"gates": gates, "n_qubits": n, "noise": spec, "with_initial": init is not None})
    for g in gates:
        if g[0] in spec:
            for kd, _ in spec[g[0]]:
                ctx.tab("noisy_gate_x_qubits_x_channel", f"{g[0]}|{len(g[1]) + len(g[2] or [])}|{kd}")

    # translator level
    tc = translate_circuit(circ, "cirq", output_options={"noise_model": nm})
    sim = cirq.DensityMatrixSimulator(dtype=np.complex128)
    qs = cirq.LineQubit.range(n)
    res = sim.simulate(tc, qubit_order=qs, initial_state=0 if init is None else np.asarray(init, dtype=complex))
    d1 = refsim.dist(res.final_density_matrix, rho)
    ctx.check("density_matrix_translated", d1 < 1e-7, "density matrix of the translated noisy circuit differs from the specified channels",
              lambda: dict(wit, max_diff=d1))
    # backend level
    n_shots = pr.choice([200, 4000])
    be = get_backend("cirq", n_shots=n_shots, noise_model=nm)
    np.random.seed(s)
    freqs, _ = be.simulate(circ, initial_statevector=init)
    cur = np.asarray(be._current_state)
    d2 = refsim.dist(cur, rho) if cur.shape == rho.shape else float("inf")
    ctx.check("density_matrix_backend", d2 < 1e-7, "backend's noisy state differs from the specified channels", lambda: dict(wit, max_diff=d2))
    diag = np.real(np.diag(rho))
    probs = {refsim.bitstring(i, n): float(p) for i, p in enumerate(diag) if p > 1e-13}
    supp = all(k in probs for k in freqs)
    okc, info = chi2_ok(freqs, probs, n_shots)
    ctx.check("sampled_frequencies", supp and abs(sum(freqs.values()) - 1) < 1e-9 and okc,
              f"noisy sampled frequencies are not draws from diag(rho) (support={supp} {info})", lambda: dict(wit, n_shots=n_shots, got=freqs, expected=probs))
    if all(all((x == 0.0 if kd == "depol" else all(y == 0.0 for y in x)) for kd, x in v) for v in spec.values()):
        psi = refsim.run(gates, n, init)
        ctx.check("zero_noise_limit", refsim.dist(cur, np.outer(psi, psi.conj())) < 1e-7, "zero error rates do not reproduce the noiseless state", wit)
    # noisy expectation value: estimator of tr(rho H)
    terms = gen.random_qubit_terms(pr, n, pr.randint(1, 5))
    op = gen.to_qubit_operator(terms)
    terms = gen.terms_of(op)
    H = refsim.qubit_operator_matrix(terms, n)
    exact = float(np.real(np.trace(rho @ H)))
    # The sampled estimator measures each Pauli word on its own circuit: state preparation followed by the basis-change rotations
    # (X: RY(-pi/2), Y: RX(pi/2)).  Those rotations are occurrences of RX / RY gates like any other, so a model with noise on RX / RY
    # applies to them as well (as on hardware): the estimator's target for a word is the expectation of the Z-string in the mixed
    # state of THAT circuit.  (Found by the thorough tier: comparing with tr(rho H) of the preparation alone was a false alarm.)
    exact_s, var = 0.0, 0.0
    for t, c in terms.items():
        if t:
            basis = [("RY", [q], None, -math.pi / 2) for q, pl in t if pl == "X"] + [("RX", [q], None, math.pi / 2) for q, pl in t if pl == "Y"]
            rho_t = reference_rho(list(gates) + basis, n, spec, init) if basis else rho
            e = float(np.real(np.trace(rho_t @ refsim.pauli_word_matrix(tuple((q, "Z") for q, _ in t), n))))
            exact_s += complex(c).real * e
            var += c * c * max(0.0, 1 - e * e)
        else:
            exact_s += complex(c).real
    noisy_basis = any(nm_ in spec for nm_ in ("RX", "RY")) and any(pl in "XY" for t in terms for _, pl in t)
    ctx.tab("noisy_basis_change_rotations", str(bool(noisy_basis)))
    np.random.seed(s + 1)
    got = be.get_expectation_value(op, circ, initial_statevector=init)
    sig = math.sqrt(var / n_shots)
    ctx.check("noisy_expectation", abs(got - exact_s) <= 6 * sig + 1e-9,
              f"noisy sampled expectation value is {abs(got - exact_s) / max(sig, 1e-300):.1f} sigma from the word-by-word expectation in the measured mixed states",
              lambda: dict(wit, terms=[[list(map(list, t)), c] for t, c in terms.items()], got=got, expected=exact_s, tr_rho_H_of_preparation=exact, sigma=sig))
    # exact noisy expectation through the density matrix
    got2 = be.expectation_value_from_prepared_state(op, n, cur)
    ctx.check("noisy_expectation", abs(got2 - exact) < 1e-7, "expectation_value_from_prepared_state(density matrix) is not tr(rho H)",
              lambda: dict(wit, got=got2, expected=exact))


def run_directed(case, ctx):
    import cirq
    from tangelo.linq import translate_circuit
    name, nc = case["name"], case["nc"]
    rng, pr, s = case_rng(ctx.seed, "C19", "directed", name, nc)
    nt = 2 if name == "CSWAP" else 1
    n = nt + nc
    qs = pr.sample(range(n), n)
    par = pr.uniform(-3, 3) if name in gen.PARAM else ""
    gates = [("H", [q], None, "") for q in range(n)] + [(name, qs[:nt], qs[nt:], par), ("T", [qs[0]], None, "")]
    for spec in ({name: [("depol", 0.4)]}, {name: [("pauli", [0.1, 0.2, 0.05])]}, {name: [("pauli", [0.2, 0.0, 0.1]), ("depol", 0.3)]}):
        nm = mk_noise_model(spec)
        rho = reference_rho(gates, n, spec)
        tc = translate_circuit(gen.to_circuit(gates, n_qubits=n), "cirq", output_options={"noise_model": nm})
        res = cirq.DensityMatrixSimulator(dtype=np.complex128).simulate(tc, qubit_order=cirq.LineQubit.range(n))
        d = refsim.dist(res.final_density_matrix, rho)
        ctx.check("density_matrix_translated", d < 1e-7, f"noise attached to {name} is not applied as specified when the gate has {nc} control(s)",
                  {"gates": gates, "noise": spec, "max_diff": d})
        ctx.nontrivial(("directed", name, nc, repr(spec)))
        for kd, _ in spec[name]:
            ctx.tab("noisy_gate_x_qubits_x_channel", f"{name}|{n}|{kd}")


def run_model_history(case, ctx):
    """One NoiseModel object used, extended and used again: every simulation must reflect the errors registered so far."""
    import cirq
    from tangelo.linq import get_backend, translate_circuit
    from tangelo.linq.noisy_simulation import NoiseModel
    rng, pr, s = case_rng(ctx.seed, "C19", "model_history", case["i"])
    n = pr.randint(1, 3)
    gates = gen.random_gates(pr, n, pr.randint(3, 8), max_controls=2, hostile=0.1)
    names = sorted({g[0] for g in gates})
    pr.shuffle(names)
    circ = gen.to_circuit(gates, n_qubits=n)
    nm = NoiseModel()
    spec = {}
    log = []
    for step, gname in enumerate(names[:4]):
        kind = pr.choice(["pauli", "depol"])
        par = [pr.uniform(0, 0.3), pr.uniform(0, 0.3), pr.uniform(0, 0.3)] if kind == "pauli" else pr.uniform(0.05, 0.9)
        nm.add_quantum_error(gname, kind, par)
        spec.setdefault(gname, []).append((kind, par))
        log.append([gname, kind, par])
        if step >= 1 and pr.random() < 0.5:
            # a second channel kind on an already noisy gate
            g2 = pr.choice(list(spec))
            have = {k for k, _ in spec[g2]}
            k2 = "depol" if "depol" not in have else ("pauli" if "pauli" not in have else None)
            if k2:
                p2 = [0.1, 0.05, 0.2] if k2 == "pauli" else 0.35
                nm.add_quantum_error(g2, k2, p2)
                spec[g2].append((k2, p2))
                log.append([g2, k2, p2])
        # re-registering a channel kind a gate already has - whatever was registered in between - is a malformed specification:
        # it must be refused and leave the model as it was (the simulation below still has to match `spec`)
        g3 = pr.choice(list(spec))
        k3 = pr.choice([k for k, _ in spec[g3]])
        p3 = [0.02, 0.03, 0.01] if k3 == "pauli" else 0.15
        try:
            nm.add_quantum_error(g3, k3, p3)
            refused = False
        except ValueError:
            refused = True
        ctx.tab("duplicate_after", f"{len(spec[g3])} channel(s), re-adding the {'last' if spec[g3][-1][0] == k3 else 'earlier'} kind")
        if not ctx.check("malformed_rejected", refused, "a second channel of a kind already registered on the gate was accepted (it would be applied twice)",
                         lambda: {"errors_registered_so_far": log, "re_added": [g3, k3, p3]}):
            return
        rho = reference_rho(gates, n, spec)
        if step % 2 == 0:
            tc = translate_circuit(circ, "cirq", output_options={"noise_model": nm})
            got = cirq.DensityMatrixSimulator(dtype=np.complex128).simulate(tc, qubit_order=cirq.LineQubit.range(n)).final_density_matrix
        else:
            be = get_backend("cirq", n_shots=10, noise_model=nm)
            np.random.seed(s + step)
            be.simulate(circ)
            got = np.asarray(be._current_state)
        d = refsim.dist(got, rho)
        ctx.check("density_matrix_translated", d < 1e-7, "a noise model extended after its first use is not applied in full by a later simulation",
                  lambda: {"gates": gates, "n_qubits": n, "errors_registered_so_far": log, "max_diff": d})
    ctx.nontrivial(("model_history", gates, repr(log)))
    ctx.sample({"sub": "model_history", "n_qubits": n, "errors": log})


def run_malformed(case, ctx):
    from tangelo.linq import get_backend, Circuit, Gate
    from tangelo.linq.noisy_simulation import NoiseModel
    circ = Circuit([Gate("X", 0), Gate("CNOT", 1, control=0)], n_qubits=2)

    def must_reject(label, build_and_run):
        try:
            build_and_run()
            ok = False
        except (ValueError, TypeError, NotImplementedError):
            ok = True
        ctx.check("malformed_rejected", ok, f"malformed / unsupported noise specification accepted: {label}", {"spec": label})

    def run(nm, n_shots=100, target="cirq"):
        be = get_backend(target, n_shots=n_shots, noise_model=nm)
        be.simulate(circ)

    def nm_with(g, k, p):
        nm = NoiseModel()
        nm.add_quantum_error(g, k, p)
        return nm

    must_reject("unknown channel type", lambda: nm_with("X", "amplitude_damping", 0.1))
    must_reject("pauli with 2 probabilities", lambda: nm_with("X", "pauli", [0.1, 0.1]))
    must_reject("pauli with a float", lambda: nm_with("X", "pauli", 0.1))
    must_reject("pauli with a tuple of 4", lambda: nm_with("X", "pauli", [0.1, 0.1, 0.1, 0.1]))
    must_reject("depol with a list", lambda: nm_with("X", "depol", [0.1]))
    must_reject("depol with a string", lambda: nm_with("X", "depol", "0.1"))

    def dup():
        nm = nm_with("X", "depol", 0.1)
        nm.add_quantum_error("X", "depol", 0.2)
    must_reject("duplicate channel type on one gate", dup)

    def dup2():
        nm = nm_with("CNOT", "pauli", [0.1, 0.0, 0.0])
        nm.add_quantum_error("CNOT", "pauli", [0.0, 0.1, 0.0])
    must_reject("duplicate pauli channel on one gate", dup2)

    def dup3(first, second):
        def f():
            nm = nm_with("H", first, [0.1, 0.0, 0.0] if first == "pauli" else 0.1)
            nm.add_quantum_error("H", second, [0.1, 0.0, 0.0] if second == "pauli" else 0.1)
            nm.add_quantum_error("H", first, [0.0, 0.1, 0.0] if first == "pauli" else 0.2)
        return f
    must_reject("pauli, depol, pauli on one gate", dup3("pauli", "depol"))
    must_reject("depol, pauli, depol on one gate", dup3("depol", "pauli"))
    must_reject("depol rate > 1", lambda: run(nm_with("X", "depol", 1.5)))
    must_reject("depol rate < 0", lambda: run(nm_with("X", "depol", -0.1)))
    must_reject("pauli rate < 0", lambda: run(nm_with("X", "pauli", [-0.1, 0.0, 0.0])))
    must_reject("pauli rates summing above 1", lambda: run(nm_with("CNOT", "pauli", [0.5, 0.4, 0.3])))
    must_reject("noise model on the sympy backend", lambda: run(nm_with("X", "depol", 0.1), target="sympy"))
    must_reject("noise model without shots", lambda: run(nm_with("X", "depol", 0.1), n_shots=None))
    ctx.nontrivial("malformed")


def run_case(case, ctx):
    {"circ": run_circ, "malformed": run_malformed, "directed": run_directed, "model_history": run_model_history}[case["sub"]](case, ctx)
