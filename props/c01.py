"""C01 - backend simulation matches the documented gate semantics (cirq numeric, sympy symbolic).

Monitor shape: reference-model monitor.  Every observed call of Backend.simulate / translate_circuit
on a generated circuit is replayed on vlib.refsim and compared exactly (not up to phase - the
returned statevector is an observable), incl. index order as advertised by backend_info().
"""
import math

import numpy as np

from vlib import gen, refsim
from vlib.harness import case_rng

PROPERTY = "C01"
RULE = ("cases = seeded random circuits over H,X,Y,Z,S,T,RX,RY,RZ,PHASE,CNOT,CX,CY,CZ,CH,CRX,CRY,CRZ,CPHASE,XX,SWAP,CSWAP "
        "with 1-3 controls at arbitrary positions, hostile/uniform angles, fixed or free width, optional random initial "
        "statevector, exact and sampled mode, on cirq and sympy; plus exhaustive single-gate placement cases. "
        "distinct = hash of (backend, gate list, width, initial-state flag); non-trivial = at least two entangling or "
        "parameterised gates")
ASSUMPTIONS = ["vlib.refsim gate matrices are the documented definitions (cross-checked against cirq at design time)",
               "only cirq and sympy backends are installed; qulacs/qiskit/qdk/stim/braket/pennylane translators cannot be executed",
               "sampled mode: chi-square rejection at p<1e-9 and exact support inclusion, RNG seeded per case"]
ANCHORS = [
    ("tangelo/linq/translator/translate_cirq.py", "translate_c_to_cirq", "cirq per-gate mapping and control handling"),
    ("tangelo/linq/translator/translate_sympy.py", "rx_gate,ry_gate,rz_gate,p_gate,controlled_gate,get_sympy_gates,translate_c_to_sympy", "sympy operator product and rotation matrices"),
    ("tangelo/linq/target/backend.py", "_statevector_to_frequencies,_int_to_binstr", "amplitude index -> bitstring and sampling"),
    ("tangelo/linq/target/target_cirq.py", "simulate_circuit", "cirq plain simulation path / initial_state plumbing"),
    ("tangelo/linq/target/target_sympy.py", "simulate_circuit", "sympy bitstring reversal and statevector extraction"),
]
REQUIRED = {"cirq_backend_reuse": 100, "sympy_backend_reuse": 10, "live_observations_total": 100, "cirq_statevector": 50, "cirq_frequencies": 50, "cirq_translated_unitary": 30, "cirq_sampled": 10,
            "sympy_statevector": 10, "sympy_frequencies": 10, "single_gate_placement": 50}
BUDGET = {"quick": 200, "thorough": 2400}
TOL = 1e-9

SYMPY_NAMES = gen.ONE_Q_FIXED + gen.ONE_Q_ROT + gen.CTRL_FIXED + gen.CTRL_ROT + ["SWAP"]


def cases(tier, seed):
    out = []
    n_cirq = 320 if tier == "quick" else 12000
    n_sym = 48 if tier == "quick" else 1500
    n_sym_str = 8 if tier == "quick" else 150
    for i in range(n_cirq):
        out.append({"sub": "cirq", "i": i})
    for i in range(n_sym):
        out.append({"sub": "sympy", "i": i})
    for i in range(n_sym_str):
        out.append({"sub": "sympy_symbolic", "i": i})
    # exhaustive single-gate placement: every gate name x n_controls, all placements on n qubits
    for name in gen.ALL_NAMES:
        for nc in (0, 1, 2, 3):
            controllable = name in gen.CTRL_FIXED or name in gen.CTRL_ROT or name == "CSWAP"
            if (nc > 0) != controllable:
                continue
            out.append({"sub": "placement", "name": name, "nc": nc, "backend": "cirq"})
            if name in SYMPY_NAMES and (tier == "thorough" or nc <= 2):
                out.append({"sub": "placement", "name": name, "nc": nc, "backend": "sympy"})
    out.append({"sub": "edge"})
    out += [{"sub": "reuse", "i": i} for i in range(40 if tier == "quick" else 1500)]
    for ns in ([10 ** 7, 2 * 10 ** 7, 10 ** 7 + 3] if tier == "quick" else [10 ** 7 - 1, 10 ** 7, 10 ** 7 + 1, 2 * 10 ** 7, 3 * 10 ** 7, 25 * 10 ** 6]):
        out += [{"sub": "bigshots", "n_shots": ns, "i": i} for i in range(1 if tier == "quick" else 3)]
    out.append({"sub": "repo_tests", "tier": tier})
    return out


# ---------------------------------------------------------------------------------------------

def expected_vector(ref_vec, n, order):
    """Re-index the reference vector (qubit 0 most significant) in the order a backend advertises."""
    if order == "lsq_first":
        return ref_vec
    t = np.asarray(ref_vec).reshape((2,) * n)
    return np.transpose(t, tuple(reversed(range(n)))).reshape(-1)


def chi2_ok(freqs, probs, n_shots):
    """freqs/probs: dict bitstring -> value. Returns (ok, info).

    Outcomes with expected count < 5 are pooled.  A pooled bin whose own expectation is still < 5 is not fed to the chi-square statistic
    (its asymptotic p-values are far too small there: e.g. 7 hits at expectation 0.94 have exact tail 6e-5, chi-square says 4e-10);
    it is tested with the exact binomial tail instead.  Rejection at p < 1e-9 in either test."""
    from scipy import stats
    keys = sorted(probs)
    exp, obs = [], []
    pool_e = pool_o = 0.0
    for k in keys:
        e = probs[k] * n_shots
        o = freqs.get(k, 0.0) * n_shots
        if e < 5:
            pool_e += e
            pool_o += o
        else:
            exp.append(e)
            obs.append(o)
    info = ""
    if pool_e > 0:
        if pool_e >= 5:
            exp.append(pool_e)
            obs.append(pool_o)
        else:
            pp = min(1.0, pool_e / n_shots)
            tail = float(min(stats.binom.sf(round(pool_o) - 1, n_shots, pp), stats.binom.cdf(round(pool_o), n_shots, pp)))
            info = f"rare outcomes: {pool_o:.0f} observed, {pool_e:.2f} expected, exact binomial tail {tail:.2e}; "
            if tail < 1e-9:
                return False, info
            # the rest is tested conditionally on the non-rare outcomes
            tot_o = sum(obs)
            tot_e = sum(exp)
            if tot_o > 0 and tot_e > 0:
                exp = [e * tot_o / tot_e for e in exp]
    if len(exp) < 2:
        return True, info + "single bin"
    exp = np.array(exp)
    obs = np.array(obs)
    stat = float(np.sum((obs - exp) ** 2 / exp))
    p = float(stats.chi2.sf(stat, len(exp) - 1))
    return p > 1e-9, info + f"chi2={stat:.2f} dof={len(exp) - 1} p={p:.2e}"


def fnum(x):
    """Frequency value -> float (values may be numpy scalars, 1-element arrays or sympy numbers)."""
    try:
        return float(x)
    except TypeError:
        return float(np.asarray(x).astype(complex).reshape(-1)[0].real)


def tab_gates(ctx, gates, backend):
    for name, tg, ct, par in gates:
        ctx.tab("gate_x_controls_x_backend", f"{name}|{len(ct or [])}|{backend}")


def check_exact(ctx, backend_name, backend, gates, n, n_fixed, init, sub_prefix):
    circ = gen.to_circuit(gates, n_qubits=n if n_fixed else None)
    width = circ.width
    if width == 0:
        return
    iv = None
    if init is not None:
        iv = init[: 2 ** width] / np.linalg.norm(init[: 2 ** width])
    order = backend.backend_info()["statevector_order"]
    ref_in = None if iv is None else iv  # caller's vector is in the backend's advertised order
    if iv is not None and order != "lsq_first":
        ref_in = np.transpose(iv.reshape((2,) * width), tuple(reversed(range(width)))).reshape(-1)
    ref = refsim.run(gates, width, ref_in)
    arg = iv
    if backend_name == "sympy" and iv is not None:
        arg = iv.reshape(-1, 1) if ctx_flag(gates, "col") else iv
    freqs, sv = backend.simulate(circ, return_statevector=True, initial_statevector=arg)
    sv = np.array(sv).astype(complex).reshape(-1)
    wit = lambda: {"backend": backend_name, "gates": gates, "n_qubits": n if n_fixed else None, "initial": iv,
                   "got_statevector": sv, "expected_statevector": expected_vector(ref, width, order),
                   "got_freqs": {k: fnum(v) for k, v in freqs.items()}, "expected_freqs": refsim.freq_dict(ref, width)}
    ctx.check(f"{sub_prefix}_statevector", refsim.dist(sv, expected_vector(ref, width, order)) < TOL,
              f"{backend_name}: returned statevector differs from the gate definitions (advertised order {order})", wit)
    ef = refsim.freq_dict(ref, width)
    ok = True
    for k in set(ef) | set(freqs):
        if len(k) != width or abs(fnum(freqs.get(k, 0)) - ef.get(k, 0)) > 1e-7:
            ok = False
    ctx.check(f"{sub_prefix}_frequencies", ok, f"{backend_name}: frequencies differ from |amp|^2 keyed qubit-0-first", wit)
    tab_gates(ctx, gates, backend_name)
    key = (backend_name, gates, n if n_fixed else None, iv is not None)
    if gen.nontrivial_circuit(gates):
        ctx.nontrivial(key)
    ctx.sample({"backend": backend_name, "gates": gates, "n_qubits": n if n_fixed else None, "with_initial_state": iv is not None})


def ctx_flag(gates, what):
    return (len(gates) % 2) == 0


def run_cirq(case, ctx):
    import cirq
    from tangelo.linq import get_backend, translate_circuit
    rng, pr, s = case_rng(ctx.seed, "C01", "cirq", case["i"])
    big = ctx.tier == "thorough"
    n = pr.randint(1, 8 if big and pr.random() < 0.2 else 6)
    ng = pr.randint(0, 40 if big and pr.random() < 0.3 else 14)
    gates = gen.random_gates(pr, n, ng, hostile=0.3, echo=0.1)
    n_fixed = pr.random() < 0.5
    init = gen.random_state(rng, n) if pr.random() < 0.5 else None
    if init is not None and not n_fixed:
        w = gen.width_of(gates)
        init = gen.random_state(rng, w) if w else None
    if not gates and not n_fixed:
        n_fixed = True
    be = get_backend("cirq")
    check_exact(ctx, "cirq", be, gates, n, n_fixed, init, "cirq")
    circ = gen.to_circuit(gates, n_qubits=n if n_fixed else None)
    width = circ.width
    # translator level: cirq.unitary of the translated circuit (includes identity padding of idle qubits)
    if width <= 6:
        tc = translate_circuit(circ, "cirq")
        qs = cirq.LineQubit.range(width)
        u = cirq.unitary(cirq.Circuit([cirq.I.on_each(qs)]) + tc) if False else tc.unitary(qubit_order=qs)
        ctx.check("cirq_translated_unitary", u.shape == (2 ** width,) * 2 and refsim.dist(u, refsim.unitary(gates, width)) < TOL,
                  "translate_circuit(c,'cirq') does not implement the documented unitary (or loses idle qubits)",
                  lambda: {"gates": gates, "n_qubits": n if n_fixed else None, "shape": list(u.shape)})
    # sampled mode
    if case["i"] % 4 == 0 and width >= 1:
        n_shots = pr.choice([1, 100, 10000])
        bs = get_backend("cirq", n_shots=n_shots)
        ref = refsim.run(gates, width, None if init is None else init[: 2 ** width] / np.linalg.norm(init[: 2 ** width]))
        probs = {refsim.bitstring(i, width): float(p) for i, p in enumerate(refsim.probabilities(ref))}
        np.random.seed(s)
        freqs, _ = bs.simulate(circ, initial_statevector=None if init is None else init[: 2 ** width] / np.linalg.norm(init[: 2 ** width]))
        supp_ok = all(len(k) == width and probs.get(k, 0) > 1e-12 for k in freqs)
        norm_ok = abs(sum(freqs.values()) - 1) < 1e-9 and all(abs(v * n_shots - round(v * n_shots)) < 1e-6 for v in freqs.values())
        ok, info = chi2_ok(freqs, {k: v for k, v in probs.items() if v > 0}, n_shots)
        ctx.check("cirq_sampled", supp_ok and norm_ok and ok,
                  f"sampled frequencies are not draws from the exact distribution (support_ok={supp_ok} norm_ok={norm_ok} {info})",
                  lambda: {"gates": gates, "n_qubits": n if n_fixed else None, "n_shots": n_shots, "freqs": freqs,
                           "exact": {k: v for k, v in probs.items() if v > 1e-12}})


def run_reuse(case, ctx):
    """One backend object, a history of calls: several circuits (re-simulated, extended in place between calls), with and without an
    initial statevector, with return_statevector on and off.  Every call is compared with the reference: nothing may leak between calls."""
    from tangelo.linq import get_backend
    rng, pr, s = case_rng(ctx.seed, "C01", "reuse", case["i"])
    bname = "sympy" if case["i"] % 5 == 4 else "cirq"
    be = get_backend(bname)
    order = be.backend_info()["statevector_order"]
    pool = []
    for _ in range(pr.randint(2, 3)):
        n = pr.randint(1, 3 if bname == "sympy" else 5)
        gl = (sympy_gates(pr, n, pr.randint(1, 4), 1) if bname == "sympy" else gen.random_gates(pr, n, pr.randint(1, 10), hostile=0.3))
        pool.append({"gates": list(gl), "n": n, "circ": gen.to_circuit(gl, n_qubits=n)})
    hist = []
    for step in range(pr.randint(3, 6) if bname == "sympy" else pr.randint(5, 12)):
        it = pr.choice(pool)
        if pr.random() < 0.3:
            g = None
            while g is None:
                g = (sympy_gates(pr, it["n"], 1, 1) or [None])[0] if bname == "sympy" else gen.random_gate(pr, it["n"], hostile=0.3)
            it["gates"].append(g)
            it["circ"].add_gate(gen.to_gate(g))      # the circuit object already seen by the backend grows in place
            hist.append(["add_gate", pool.index(it), g])
        n = it["n"]
        init = gen.random_state(rng, n) if pr.random() < 0.4 else None
        rsv = pr.random() < 0.6
        ref_in = init
        if init is not None and order != "lsq_first":
            ref_in = np.transpose(init.reshape((2,) * n), tuple(reversed(range(n)))).reshape(-1)
        ref = refsim.run(it["gates"], n, ref_in)
        hist.append(["simulate", pool.index(it), "init" if init is not None else None, rsv])
        freqs, sv = be.simulate(it["circ"], return_statevector=rsv, initial_statevector=init)
        ef = refsim.freq_dict(ref, n)
        ok = all(len(k) == n and abs(fnum(freqs.get(k, 0)) - ef.get(k, 0)) < 1e-7 for k in set(ef) | set(freqs))
        if rsv:
            got = np.array(sv).astype(complex).reshape(-1)
            ok = ok and refsim.dist(got, expected_vector(ref, n, order)) < TOL
        else:
            ok = ok and sv is None
        ctx.check(f"{bname}_backend_reuse", ok, f"{bname}: a call on a re-used backend object differs from the reference (state leaking between calls?)",
                  lambda: {"backend": bname, "history": hist, "circuits": [[q["gates"], q["n"]] for q in pool],
                           "got_freqs": {k: fnum(v) for k, v in freqs.items()}, "expected_freqs": ef})
        if not ok:
            break
    ctx.nontrivial(("reuse", bname, repr(hist)))
    ctx.sample({"sub": "reuse", "backend": bname, "steps": len(hist)})


def run_bigshots(case, ctx):
    """Shot numbers at and around the sampler's internal chunk size (10**7): the histogram must still be n_shots draws."""
    from tangelo.linq import get_backend
    rng, pr, s = case_rng(ctx.seed, "C01", "bigshots", case["n_shots"], case["i"])
    n_shots = case["n_shots"]
    n = pr.randint(1, 2)
    gates = gen.random_gates(pr, n, pr.randint(1, 4), names=gen.ONE_Q_ROT + ["H", "CNOT", "CRY"], max_controls=1, hostile=0.0)
    circ = gen.to_circuit(gates, n_qubits=n)
    ref = refsim.run(gates, n)
    probs = {refsim.bitstring(i, n): float(p) for i, p in enumerate(refsim.probabilities(ref))}
    np.random.seed(s)
    freqs, _ = get_backend("cirq", n_shots=n_shots).simulate(circ)
    supp_ok = all(len(k) == n and probs.get(k, 0) > 1e-12 for k in freqs)
    norm_ok = abs(sum(freqs.values()) - 1) < 1e-9
    ok, info = chi2_ok(freqs, {k: v for k, v in probs.items() if v > 0}, n_shots)
    ctx.check("cirq_sampled", supp_ok and norm_ok and ok,
              f"n_shots={n_shots}: sampled frequencies are not n_shots draws from the exact distribution (support_ok={supp_ok} norm_ok={norm_ok} {info})",
              lambda: {"gates": gates, "n_qubits": n, "n_shots": n_shots, "freqs": freqs, "exact": probs, "sum": sum(freqs.values())})
    ctx.tab("big_n_shots", str(n_shots))
    ctx.nontrivial(("bigshots", n_shots, gates))


def sympy_gates(pr, n, ng, max_controls):
    return gen.random_gates(pr, n, ng, names=SYMPY_NAMES, max_controls=max_controls, hostile=0.3, echo=0.1)


def run_sympy(case, ctx):
    from tangelo.linq import get_backend
    rng, pr, s = case_rng(ctx.seed, "C01", "sympy", case["i"])
    n = pr.randint(1, 3 if ctx.tier == "quick" else 4)
    ng = pr.randint(0, 6 if ctx.tier == "quick" else 10)
    gates = sympy_gates(pr, n, ng, 2 if case["i"] % 3 == 0 else 1)
    n_fixed = pr.random() < 0.5 or not gates
    init = gen.random_state(rng, n) if pr.random() < 0.4 else None
    if init is not None and not n_fixed:
        w = gen.width_of(gates)
        init = gen.random_state(rng, w) if w else None
    if case["i"] % 5 == 0 and init is not None:
        # a single basis state: this is where an index-order error is visible most plainly
        k = pr.randrange(len(init))
        init = np.zeros(len(init), dtype=complex)
        init[k] = 1
    be = get_backend("sympy")
    try:
        check_exact(ctx, "sympy", be, gates, n, n_fixed, init, "sympy")
    except (ValueError, NotImplementedError) as e:
        # a backend may refuse what it cannot express - but only loudly
        if "not supported" in str(e):
            ctx.note("sympy_refused")
        else:
            raise


def run_sympy_symbolic(case, ctx):
    """String parameters: simulate symbolically, then substitute random values."""
    import sympy
    from tangelo.linq import get_backend
    rng, pr, s = case_rng(ctx.seed, "C01", "sympy_str", case["i"])
    n = pr.randint(1, 3)
    ng = pr.randint(1, 5)
    gates = sympy_gates(pr, n, ng, 1)
    vals = {}
    sym_gates = []
    for j, (name, tg, ct, par) in enumerate(gates):
        if name in gen.PARAM and pr.random() < 0.7:
            sym = f"t{j}"
            vals[sym] = par
            sym_gates.append((name, tg, ct, sym))
        else:
            sym_gates.append((name, tg, ct, par))
    circ = gen.to_circuit(sym_gates, n_qubits=n)
    be = get_backend("sympy")
    freqs, sv = be.simulate(circ, return_statevector=True)
    subs = {sympy.Symbol(k, real=True): v for k, v in vals.items()}
    got = np.array([complex(sympy.N(x.subs(subs))) for x in list(sv)]).reshape(-1)
    order = be.backend_info()["statevector_order"]
    ref = refsim.run(gates, n)
    ctx.check("sympy_symbolic_statevector", refsim.dist(got, expected_vector(ref, n, order)) < 1e-8,
              "sympy: symbolic statevector, after substituting the parameter values, differs from the gate definitions",
              lambda: {"gates": sym_gates, "values": vals, "got": got, "expected": expected_vector(ref, n, order)})
    ef = refsim.freq_dict(ref, n)
    def _num(v):
        # a symbolic probability evaluates to a complex number with a round-off imaginary part for some angle values
        z = complex(sympy.N(sympy.sympify(v).subs(subs)))
        return z.real if abs(z.imag) < 1e-9 else float("nan")
    gf = {k: _num(v) for k, v in freqs.items()}
    ok = all(abs(gf.get(k, 0) - ef.get(k, 0)) < 1e-6 for k in set(ef) | set(gf))
    ctx.check("sympy_symbolic_frequencies", ok, "sympy: symbolic frequencies differ after substitution",
              lambda: {"gates": sym_gates, "values": vals, "got": gf, "expected": ef})
    if gen.nontrivial_circuit(gates):
        ctx.nontrivial(("sympy_symbolic", sym_gates))


def run_placement(case, ctx):
    """One gate, every placement of targets/controls on a (nt+nc+1)-qubit register, on a random product-free state."""
    import itertools
    from tangelo.linq import get_backend
    name, nc, bname = case["name"], case["nc"], case["backend"]
    rng, pr, s = case_rng(ctx.seed, "C01", "placement", name, nc, bname)
    nt = 2 if name in ("XX", "SWAP", "CSWAP") else 1
    n = min(nt + nc + 1, 4 if bname == "sympy" else 5)
    if nt + nc > n:
        return
    be = get_backend(bname)
    order = be.backend_info()["statevector_order"]
    placements = list(itertools.permutations(range(n), nt + nc))
    if bname == "sympy" and len(placements) > 12:
        placements = pr.sample(placements, 12)
    for qs in placements:
        par = gen.angle(pr, 0.3) if name in gen.PARAM else ""
        g = (name, list(qs[:nt]), list(qs[nt:]) if nc else None, par)
        init = gen.random_state(rng, n)
        circ = gen.to_circuit([g], n_qubits=n)
        ref_in = init if order == "lsq_first" else np.transpose(init.reshape((2,) * n), tuple(reversed(range(n)))).reshape(-1)
        ref = refsim.run([g], n, ref_in)
        try:
            freqs, sv = be.simulate(circ, return_statevector=True,
                                    initial_statevector=init.reshape(-1, 1) if bname == "sympy" else init)
        except (ValueError, NotImplementedError) as e:
            if bname == "sympy" and "not supported" in str(e):
                ctx.note("sympy_refused")
                continue
            raise
        sv = np.array(sv).astype(complex).reshape(-1)
        ctx.check("single_gate_placement", refsim.dist(sv, expected_vector(ref, n, order)) < TOL,
                  f"{bname}: gate {name} with {nc} controls at {qs} acts differently from its definition",
                  lambda: {"backend": bname, "gate": g, "n": n, "initial": init, "got": sv,
                           "expected": expected_vector(ref, n, order)})
        ctx.tab("gate_x_controls_x_backend", f"{name}|{nc}|{bname}")
        ctx.nontrivial(("placement", bname, name, nc, qs))


def run_edge(case, ctx):
    """Order probes and initial-state plumbing on both backends."""
    from tangelo.linq import get_backend, Circuit, Gate
    for bname in ("cirq", "sympy"):
        be = get_backend(bname)
        order = be.backend_info()["statevector_order"]
        for n in (2, 3):
            # X_k|0..0>: the single non-zero amplitude must sit where the advertised order says
            for k in range(n):
                circ = Circuit([Gate("X", k)], n_qubits=n)
                freqs, sv = be.simulate(circ, return_statevector=True)
                sv = np.array(sv).astype(complex).reshape(-1)
                bits = ["0"] * n
                bits[k] = "1"
                bs = "".join(bits)
                idx = int(bs, 2) if order == "lsq_first" else int(bs[::-1], 2)
                ctx.check("order_probe", abs(abs(sv[idx]) - 1) < TOL and set(freqs) == {bs},
                          f"{bname}: X on qubit {k} of {n}: amplitude index / bitstring contradict advertised order {order}",
                          lambda: {"backend": bname, "n": n, "k": k, "sv": sv, "freqs": {a: fnum(b) for a, b in freqs.items()}})
            # empty circuit + basis-state initial vector must be read in the same order as a non-empty circuit reads it
            for j in range(2 ** n):
                v = np.zeros(2 ** n)
                v[j] = 1
                arg = v.reshape(-1, 1) if bname == "sympy" else v
                f_empty, _ = be.simulate(Circuit(n_qubits=n), initial_statevector=arg)
                f_id, _ = be.simulate(Circuit([Gate("Z", 0), Gate("Z", 0)], n_qubits=n), initial_statevector=arg)
                ctx.check("empty_circuit_initial_state", set(f_empty) == set(f_id),
                          f"{bname}: the same initial basis vector is read in different qubit orders by the empty-circuit "
                          f"path and the simulation path", lambda: {"backend": bname, "n": n, "index": j,
                                                                    "empty": sorted(f_empty), "nonempty": sorted(f_id)})
        # 1-D numpy initial statevector is a documented input type (list/array)
        v = np.zeros(4)
        v[2] = 1
        f1, _ = be.simulate(Circuit([Gate("H", 0)], n_qubits=2), initial_statevector=v)
        f2, _ = be.simulate(Circuit([Gate("H", 0)], n_qubits=2), initial_statevector=v.reshape(-1, 1) if bname == "sympy" else v)
        ctx.check("one_dim_initial_state", {k: round(fnum(x), 9) for k, x in f1.items()} == {k: round(fnum(x), 9) for k, x in f2.items()},
                  f"{bname}: 1-D initial statevector handled differently from a column vector", {"backend": bname})


def classify_exception(case, e, info):
    return None


def run_repo_tests(case, ctx):
    """The repository's own tests as an additional workload: every observed call is compared with the reference model (vlib.livemon)."""
    from vlib.harness import repo_tests_case
    repo_tests_case(case, ctx, ['tangelo/linq/tests/test_simulator.py'],
                    ['tangelo/linq/tests', 'tangelo/toolboxes/circuits/tests', 'tangelo/toolboxes/ansatz_generator/tests', 'tangelo/toolboxes/measurements/tests'],
                    only=('simulate_', 'translate_cirq_unitary'), semantic=('C01', 'C17'))


def run_case(case, ctx):
    sub = case["sub"]
    if sub == "repo_tests":
        return run_repo_tests(case, ctx)
    if sub == "reuse":
        return run_reuse(case, ctx)
    if sub == "bigshots":
        return run_bigshots(case, ctx)
    if sub == "cirq":
        run_cirq(case, ctx)
    elif sub == "sympy":
        run_sympy(case, ctx)
    elif sub == "sympy_symbolic":
        run_sympy_symbolic(case, ctx)
    elif sub == "placement":
        run_placement(case, ctx)
    elif sub == "edge":
        run_edge(case, ctx)


def summarize(agg, tier):
    tab = agg["tables"].get("gate_x_controls_x_backend", {})
    missing = []
    for name in gen.ALL_NAMES:
        controllable = name in gen.CTRL_FIXED or name in gen.CTRL_ROT or name == "CSWAP"
        for nc in ((1, 2, 3) if controllable else (0,)):
            if f"{name}|{nc}|cirq" not in tab:
                missing.append(f"{name}|{nc}|cirq")
    return {"coverage_table_empty_cells_cirq": missing}
