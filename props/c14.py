"""C14 - qubit-reduction techniques keep the eigenvalue they are meant to keep.

Monitor shape: reference-model monitor on spectra / expectation values.
  * tapering: dense spectrum of the tapered operator vs dense spectrum of the original and the
    sector ground energy (bit-counting sector block of the JW Hamiltonian, see C04);
  * trimming: <psi|O|psi> before and after (vlib.refsim), input circuit snapshot;
  * truncation: sorted eigenvalue shift vs epsilon, incl. the hostile rank-one family
    big*A + alpha*|s><s| for odd and even register sizes.
"""
import itertools
import math
import warnings

import numpy as np

from vlib import chem, chemref, fock, gen, refsim
from vlib.harness import case_rng

PROPERTY = "C14"
RULE = ("cases: molecular Hamiltonians (H2, H3+, H3, H4, H4+, 3-21G H2, frozen variants) x JW/BK/JKMN x both orderings for tapering; "
        "seeded circuits mixing entangled blocks with single-qubit columns from {idle, X, Y, RX(k pi), RZ, Z, Z.X, X.X, RZ.RX(-pi), "
        "X.Z, H, RY, three gates} x random operators for trimming; random operators plus the hostile family big*A + alpha*|s><s| "
        "(stabiliser-state projector, alpha swept through [0.5 eps, 1.5 eps]) on 2-7 qubits for truncation. distinct = hash(case "
        "inputs); non-trivial = >= 2 symmetries found / >= 1 trimmed and >= 1 kept qubit / >= 1 discarded term")
ASSUMPTIONS = ["dense spectra with numpy eigvalsh on <= 8 qubits", "sector ground energy from the JW sector block (validated against FCI in C04)"]
ANCHORS = [
    ("tangelo/toolboxes/operators/multiformoperator.py", "get_kernel", "kernel of the binary operator matrix"),
    ("tangelo/helpers/math.py", "bool_col_echelon", "column echelon form"),
    ("tangelo/toolboxes/operators/z2_tapering.py", "get_clifford_operators,get_unitary,get_eigenvalues", "Clifford choice and sector eigenvalues"),
    ("tangelo/toolboxes/operators/z2_tapering.py", "get_z2_taper_function", "rotate, substitute eigenvalues, delete columns"),
    ("tangelo/toolboxes/operators/trim_trivial_qubits.py", "trim_trivial_operator,is_bitflip_gate,trim_trivial_circuit,trim_trivial_qubits", "classification of idle / flipped / phase-only qubits"),
    ("tangelo/toolboxes/operators/operators.py", "frobenius_norm_compression", "cumulative-norm cut-off"),
]
REQUIRED = {"tapered_spectrum_subset": 20, "tapered_keeps_sector_ground_state": 20, "tapered_register_size": 20, "trim_expectation_unchanged": 94, "trim_input_unchanged": 94, "truncation_eigenvalue_shift": 150}
BUDGET = {"quick": 300, "thorough": 2400}


def cases(tier, seed):
    out = []
    n_mol = 10 if tier == "quick" else 400
    out += [{"sub": "taper", "i": i} for i in range(n_mol)]
    out += [{"sub": "trim", "i": i} for i in range(240 if tier == "quick" else 40000)]
    out += [{"sub": "trunc", "i": i} for i in range(200 if tier == "quick" else 30000)]
    return out


def run_taper(case, ctx):
    from tangelo.toolboxes.operators.taper_qubits import QubitTapering
    from tangelo.toolboxes.qubit_mappings.mapping_transform import fermion_to_qubit_mapping
    from tangelo.toolboxes.ansatz_generator.fermionic_operators import number_operator
    from props.c04 import sector_min
    rng, pr, s = case_rng(ctx.seed, "C14", "taper", case["i"])
    spec = chem.mol_spec(pr, rng, kinds=["H2", "H3+", "H3", "H4", "H4+", "H2_321g", "H4ring"], allow_uhf=False)
    try:
        with warnings.catch_warnings():
            warnings.simplefilter("ignore")
            mol = chem.build(spec)
    except (ValueError, NotImplementedError, TypeError):
        ctx.note("configuration_refused")
        return
    n = mol.n_active_sos
    if n > 8:
        return
    ev_sector = sector_min(mol)[0]
    e0 = float(ev_sector[0])
    for mapping in ("JW", "BK", "JKMN"):
        for utd in (False, True):
            qop = fermion_to_qubit_mapping(mol.fermionic_hamiltonian, mapping, n_spinorbitals=n, n_electrons=mol.n_active_electrons,
                                           up_then_down=utd, spin=mol.active_spin)
            before = dict(qop.terms)
            wit = {"spec": spec, "mapping": mapping, "up_then_down": utd}
            tap = QubitTapering(qop, n, mol.n_active_electrons, spin=mol.active_spin, mapping=mapping, up_then_down=utd)
            top = tap.z2_tapered_op.qubitoperator
            nsym = tap.z2_properties["n_symmetries"]
            nt = n - nsym
            used = max([i for t in top.terms for i, _ in t], default=-1) + 1
            ctx.check("tapered_register_size", used <= nt and nsym >= 1, f"tapered operator acts on {used} qubits, expected at most n - n_symmetries = {nt}",
                      dict(wit, n_symmetries=int(nsym), used=used))
            if nt <= 0:
                continue
            full = np.linalg.eigvalsh(refsim.qubit_operator_matrix({tuple(t): c for t, c in qop.terms.items()}, n))
            M = refsim.qubit_operator_matrix({tuple(t): c for t, c in top.terms.items()}, nt)
            herm = refsim.dist(M, M.conj().T) < 1e-9
            evt = np.linalg.eigvalsh((M + M.conj().T) / 2)
            worst = max(float(np.min(np.abs(full - x))) for x in evt)
            ctx.check("tapered_spectrum_subset", herm and worst < 1e-7, f"tapered operator has an eigenvalue that is {worst:.2e} away from every eigenvalue of the original",
                      dict(wit, worst=worst, hermitian=herm))
            def classify():
                """Known mechanism: the symmetry eigenvalues are read off the reference (Hartree-Fock) determinant; in symmetric
                molecules the ground state of the (N, Sz) sector may carry other point-group eigenvalues.  Confirmed differentially:
                the missing energy must appear when the same taper function is applied with another eigenvalue assignment."""
                from tangelo.toolboxes.operators.multiformoperator import MultiformOperator
                ref = list(tap.z2_properties["eigenvalues"])
                for assign in itertools.product((1, -1), repeat=len(ref)):
                    if list(assign) == [int(x) for x in ref]:
                        continue
                    alt = tap.z2_taper(MultiformOperator.from_qubitop(qop, n), eigenvalues=np.array(assign)).qubitoperator
                    Ma = refsim.qubit_operator_matrix({tuple(t): c for t, c in alt.terms.items()}, nt)
                    if float(np.min(np.abs(np.linalg.eigvalsh((Ma + Ma.conj().T) / 2) - e0))) < 1e-7:
                        return "tapering_sector_of_reference_determinant"
                return None
            ctx.check("tapered_keeps_sector_ground_state", float(np.min(np.abs(evt - e0))) < 1e-7,
                      f"tapered operator lost the ground energy {e0:.9f} of the target electron-number / spin sector",
                      dict(wit, sector_ground_energy=e0, closest=float(evt[np.argmin(np.abs(evt - e0))])), mech=classify)
            ctx.check("tapered_register_size", dict(qop.terms) == before, "tapering modified the operator passed in", wit)
            # tapering another operator with the same symmetries: the number operator keeps n_electrons in its spectrum
            qn = fermion_to_qubit_mapping(number_operator(n // 2), mapping, n_spinorbitals=n, n_electrons=mol.n_active_electrons,
                                          up_then_down=utd, spin=mol.active_spin)
            tn = tap.z2_tapering(qn, n_qubits=n)
            Mn = refsim.qubit_operator_matrix({tuple(t): c for t, c in tn.terms.items()}, nt)
            evn = np.linalg.eigvalsh((Mn + Mn.conj().T) / 2)
            ctx.check("tapered_spectrum_subset", all(min(abs(x - k) for k in range(n + 1)) < 1e-7 for x in evn) and min(abs(evn - mol.n_active_electrons)) < 1e-7,
                      "tapered number operator has non-integer eigenvalues or lost the target electron number", dict(wit, eigenvalues=evn))
            if nsym >= 2:
                ctx.nontrivial(("taper", repr(spec), mapping, utd))
            ctx.tab("taper_mapping", f"{mapping}|{utd}|nsym={int(nsym)}")
    ctx.sample({"sub": "taper", "spec": spec, "n": n})


COLUMNS = ["idle", "X", "Y", "RXpi", "RX3pi", "RXmpi", "RZ", "Z", "Z_X", "X_X", "RZ_RXmpi", "X_Z", "H", "RY", "RX_small", "three", "RYpi", "RZ_RZ", "X_RZ",
           "RX_X", "Z_RXpi", "RXt_X", "RXt_RXpi", "RX0_X", "RX2pi_X", "X_RXt", "RZ_X", "RY_X", "RXt_Z", "Y_X", "H_X"]


def column_gates(pr, kind, q):
    pi = math.pi
    t = pr.uniform(-3, 3)
    return {
        "idle": [], "X": [("X", [q], None, "")], "Y": [("Y", [q], None, "")], "RXpi": [("RX", [q], None, pi)], "RX3pi": [("RX", [q], None, 3 * pi)],
        "RXmpi": [("RX", [q], None, -pi)], "RZ": [("RZ", [q], None, t)], "Z": [("Z", [q], None, "")],
        "Z_X": [("Z", [q], None, ""), ("X", [q], None, "")], "X_X": [("X", [q], None, ""), ("X", [q], None, "")],
        "RZ_RXmpi": [("RZ", [q], None, t), ("RX", [q], None, -pi)], "X_Z": [("X", [q], None, ""), ("Z", [q], None, "")],
        "H": [("H", [q], None, "")], "RY": [("RY", [q], None, t)], "RX_small": [("RX", [q], None, 0.4)],
        "three": [("X", [q], None, ""), ("Z", [q], None, ""), ("X", [q], None, "")], "RYpi": [("RY", [q], None, pi)],
        "RZ_RZ": [("RZ", [q], None, t), ("RZ", [q], None, 0.3)], "X_RZ": [("X", [q], None, ""), ("RZ", [q], None, t)],
        "RXt_X": [("RX", [q], None, t), ("X", [q], None, "")], "RXt_RXpi": [("RX", [q], None, t), ("RX", [q], None, pi)],
        "RX0_X": [("RX", [q], None, 0.0), ("X", [q], None, "")], "RX2pi_X": [("RX", [q], None, 2 * pi), ("X", [q], None, "")],
        "X_RXt": [("X", [q], None, ""), ("RX", [q], None, t)], "RZ_X": [("RZ", [q], None, t), ("X", [q], None, "")],
        "RY_X": [("RY", [q], None, t), ("X", [q], None, "")], "RXt_Z": [("RX", [q], None, t), ("Z", [q], None, "")],
        "Y_X": [("Y", [q], None, ""), ("X", [q], None, "")], "H_X": [("H", [q], None, ""), ("X", [q], None, "")],
        "RX_X": [("RX", [q], None, pi), ("X", [q], None, "")], "Z_RXpi": [("Z", [q], None, ""), ("RX", [q], None, pi + pr.choice([0, 1e-7, -1e-7]))],
    }[kind]


def run_trim(case, ctx):
    from tangelo.toolboxes.operators.trim_trivial_qubits import trim_trivial_qubits
    rng, pr, s = case_rng(ctx.seed, "C14", "trim", case["i"])
    n = pr.randint(1, 6)
    # choose an entangled block on a subset of qubits, single-qubit columns elsewhere
    k_ent = pr.randint(0, min(3, n))
    ent = sorted(pr.sample(range(n), k_ent)) if k_ent >= 2 else []
    gates = []
    kinds = {}
    for q in range(n):
        if q in ent:
            continue
        kinds[q] = pr.choice(COLUMNS)
        gates += column_gates(pr, kinds[q], q)
    if ent:
        sub = gen.random_gates(pr, len(ent), pr.randint(2, 6), names=["H", "CNOT", "RY", "RZ", "CZ", "X", "XX"], max_controls=1, hostile=0.1)
        if not any(len(g[1]) + len(g[2] or []) > 1 for g in sub):
            sub.append(("CNOT", [1], [0], ""))
        for nm, tg, ct, par in sub:
            gates.append((nm, [ent[x] for x in tg], None if ct is None else [ent[x] for x in ct], par))
    pr.shuffle(gates) if False else None
    # interleave columns and block gates without reordering gates on the same qubit
    order = list(range(len(gates)))
    circ = gen.to_circuit(gates, n_qubits=n if pr.random() < 0.5 else None)
    w = circ.width
    if w == 0:
        return
    terms = gen.random_qubit_terms(pr, w, pr.randint(1, 8))
    op = gen.to_qubit_operator(terms)
    terms = gen.terms_of(op)
    snap = gen.from_circuit(circ)
    op_before = dict(op.terms)
    top, tcirc = trim_trivial_qubits(op, circ)
    wit = lambda: {"gates": gates, "n": n, "columns": kinds, "entangled": ent, "terms": [[list(map(list, t)), c] for t, c in terms.items()],
                   "trimmed_gates": gen.from_circuit(tcirc), "trimmed_terms": [[list(map(list, t)), c] for t, c in top.terms.items()]}
    ctx.check("trim_input_unchanged", gen.from_circuit(circ) == snap and circ.width == w and dict(op.terms) == op_before,
              "trim_trivial_qubits modified its input circuit or operator", wit)
    psi = refsim.run(gates, w)
    e0 = refsim.expectation(terms, psi, w)
    w2 = tcirc.width
    tterms = gen.terms_of(top)
    need = max([i for t in tterms for i, _ in t], default=-1) + 1
    w2 = max(w2, need)
    if w2 == 0:
        e1 = complex(tterms.get((), 0.0))
    else:
        psi2 = refsim.run(gen.from_circuit(tcirc), w2)
        e1 = refsim.expectation(tterms, psi2, w2)
    ctx.check("trim_expectation_unchanged", abs(e0 - e1) < 1e-6, f"expectation value changed from {e0} to {e1} after trimming trivial qubits", wit)
    if w2 < w and w2 > 0:
        ctx.nontrivial(("trim", gates, sorted(map(repr, terms.items()))))
    for kd in kinds.values():
        ctx.tab("column_kind", kd)
    ctx.sample({"sub": "trim", "n": n, "columns": kinds, "entangled": ent, "width_after": tcirc.width})


def stabiliser_projector_terms(pr, n):
    """|s><s| for a random stabiliser state (basis-change of a computational basis state), as Pauli words: (1/2^n) prod (1 + s_q P_q)."""
    letters = [pr.choice("XYZ") for _ in range(n)]
    signs = [pr.choice([1, -1]) for _ in range(n)]
    terms = {}
    for subset in itertools.product((0, 1), repeat=n):
        t = tuple((q, letters[q]) for q in range(n) if subset[q])
        c = 1.0 / 2 ** n
        for q in range(n):
            if subset[q]:
                c *= signs[q]
        terms[t] = c
    return terms


def run_trunc(case, ctx):
    rng, pr, s = case_rng(ctx.seed, "C14", "trunc", case["i"])
    n = pr.randint(2, 6 if ctx.tier == "quick" else 7)
    eps = pr.choice([1e-3, 1e-2, 0.1, 0.5])
    style = case["i"] % 3
    if style == 0:
        terms = gen.random_qubit_terms(pr, n, pr.randint(3, 25))
        terms = {t: c * pr.choice([1.0, 1e-2, 1e-3, 1e-4]) for t, c in terms.items()}
    else:
        # hostile: a few big words + a rank-one projector scaled around the tolerance (spectral norm = Frobenius norm)
        big = gen.random_qubit_terms(pr, n, pr.randint(1, 4), identity=False)
        big = {t: (3.0 + abs(c)) * (1 if c > 0 else -1) for t, c in big.items()}
        alpha = eps * pr.uniform(0.5, 1.5)
        proj = stabiliser_projector_terms(pr, n)
        terms = dict(big)
        for t, c in proj.items():
            if t in terms:
                continue
            terms[t] = alpha * c
    op = gen.to_qubit_operator(terms)
    terms = gen.terms_of(op)
    full = np.linalg.eigvalsh(refsim.qubit_operator_matrix(terms, n))
    op.frobenius_norm_compression(eps, n)
    kept = gen.terms_of(op)
    comp = np.linalg.eigvalsh(refsim.qubit_operator_matrix(kept, n))
    shift = float(np.max(np.abs(full - comp)))
    ctx.check("truncation_eigenvalue_shift", shift <= eps * (1 + 1e-9) + 1e-12,
              f"frobenius_norm_compression(eps={eps}, n={n}) moved an eigenvalue by {shift:.4g} = {shift / eps:.3f} eps",
              lambda: {"n": n, "eps": eps, "terms": [[list(map(list, t)), c] for t, c in terms.items()], "kept": len(kept), "shift": shift})
    ctx.check("truncation_eigenvalue_shift", all(t in terms and abs(terms[t] - c) < 1e-12 for t, c in kept.items()),
              "compression changed or invented a coefficient", {"n": n, "eps": eps})
    if len(kept) < len(terms):
        ctx.nontrivial(("trunc", n, eps, sorted(map(repr, terms.items()))))
    ctx.tab("register_parity", "odd" if n % 2 else "even")
    ctx.sample({"sub": "trunc", "n": n, "eps": eps, "n_terms": len(terms), "kept": len(kept), "shift_over_eps": shift / eps})


def run_case(case, ctx):
    {"taper": run_taper, "trim": run_trim, "trunc": run_trunc}[case["sub"]](case, ctx)
