"""C11 - circuit metadata stays consistent under any operation history.

Monitor shape: history checker with a shadow model.  A seeded generator drives a sequence of
circuit-building / transformation / read-only operations on the real Circuit objects; after
every step the reported metadata is compared with a recomputation from the public iterator, and
read-only operations are bracketed by snapshots.  The step log is the witness.
"""
import collections
import math

import numpy as np

from vlib import gen, refsim
from vlib.harness import case_rng

PROPERTY = "C11"
RULE = ("cases = seeded histories of 1-12 (thorough: -40) operations over {add_gate valid/invalid, +, *, copy, inverse, "
        "trim_qubits, reindex_qubits, split, stack, remove_small_rotations, remove_redundant_gates, merge_rotations, simplify, "
        "translate to cirq/sympy/ionq/projectq, simulate on cirq, depth} on circuits with and without a fixed number of "
        "qubits (MEASURE, variational gates, string parameters, multi-controlled CNOT included), plus a Gate-constructor fuzz. "
        "distinct = hash of the executed step log; non-trivial = >= 2 state-changing steps")
ASSUMPTIONS = ["metadata is recomputed from list(circuit) only; depth oracle = as-soon-as-possible schedule",
               "a circuit counts as 'never given a fixed size' only while no step of its history passed n_qubits (shadow flag)"]
ANCHORS = [
    ("tangelo/linq/gate.py", "__init__", "index validation at gate construction"),
    ("tangelo/linq/circuit.py", "add_gate", "incremental maintenance on add_gate"),
    ("tangelo/linq/circuit.py", "trim_qubits,reindex_qubits", "in-place index rewriting"),
    ("tangelo/linq/circuit.py", "remove_small_rotations,remove_redundant_gates,merge_rotations,simplify", "attribute-dictionary replacement by in-place passes"),
    ("tangelo/linq/circuit.py", "depth", "depth via per-qubit latest moment"),
    ("tangelo/linq/translator/translate_cirq.py", "translate_c_to_cirq", "cirq translator iterating over source gates"),
    ("tangelo/linq/translator/translate_sympy.py", "translate_c_to_sympy", "sympy translator iterating over source gates"),
]
REQUIRED = {"operand_stays_unchanged": 200, "live_observations_total": 50, "metadata_after_step": 1000, "readonly_unchanged": 300, "rejected_add_gate_no_effect": 31, "gate_constructor_rejects": 60, "copy_consistent": 500, "depth": 500}
BUDGET = {"quick": 240, "thorough": 2400}


def cases(tier, seed):
    n = 400 if tier == "quick" else 100000
    out = [{"sub": "repo_tests", "tier": tier}]
    return out + [{"sub": "history", "i": i} for i in range(n)] + [{"sub": "gatefuzz", "i": i} for i in range(8 if tier == "quick" else 100)]


def glist(c):
    return [(g.name, tuple(g.target), None if g.control is None else tuple(g.control), repr(g.parameter),
             type(g.parameter).__name__, bool(g.is_variational)) for g in c]


def meta(c):
    return {"size": c.size, "width": c.width, "counts": dict(c.counts), "counts_n_qubit": dict(c.counts_n_qubit),
            "is_variational": c.is_variational, "is_mixed_state": c.is_mixed_state}


def full_snapshot(c):
    return {"gates": glist(c), "meta": meta(c), "fixed": c._qubits_simulated}


def recompute(c):
    gl = list(c)
    cnt = collections.Counter(g.name for g in gl)
    cntn = collections.Counter(len(g.target) + (len(g.control) if g.control is not None else 0) for g in gl)
    mx = -1
    for g in gl:
        mx = max([mx] + list(g.target) + list(g.control or []))
    return {"size": len(gl), "counts": dict(cnt), "counts_n_qubit": dict(cntn),
            "is_variational": any(g.is_variational for g in gl),
            "is_mixed_state": any(g.name in ("MEASURE", "CMEASURE") for g in gl), "min_width": mx + 1}


def asap_depth(c):
    level = {}
    d = 0
    for g in c:
        qs = list(g.target) + list(g.control or [])
        lv = 1 + max([level.get(q, 0) for q in qs])
        for q in qs:
            level[q] = lv
        d = max(d, lv)
    return d


def check_meta(ctx, c, never_fixed, log):
    got = meta(c)
    exp = recompute(c)
    ok = all(got[k] == exp[k] for k in ("size", "counts", "counts_n_qubit", "is_variational", "is_mixed_state"))
    ok = ok and got["width"] >= exp["min_width"]
    if never_fixed:
        ok = ok and got["width"] == exp["min_width"]
    ctx.check("metadata_after_step", ok, "reported metadata differs from recomputation over the current gate list",
              lambda: {"history": log, "reported": got, "recomputed": exp, "never_fixed": never_fixed, "gates": glist(c)})
    dep = c.depth()
    ctx.check("depth", dep == asap_depth(c), "depth() differs from the as-soon-as-possible schedule depth",
              lambda: {"history": log, "reported": dep, "expected": asap_depth(c), "gates": glist(c)})
    try:
        cp = c.copy()
        okc = (cp == c) and cp.width == c.width and glist(cp) == glist(c) and meta(cp) == meta(c)
        msg = "copy() differs from the original"
    except Exception as e:  # noqa
        okc, msg = False, f"copy() raised {type(e).__name__}: {e}"
    ctx.check("copy_consistent", okc, msg, lambda: {"history": log, "gates": glist(c), "meta": got, "fixed": c._qubits_simulated})
    return ok


def rand_gate(pr, n, allow_special=True):
    r = pr.random()
    if allow_special and r < 0.08:
        return ("MEASURE", [pr.randrange(n)], None, "")
    g = None
    while g is None:
        g = gen.random_gate(pr, n, hostile=0.3)
    if allow_special and r > 0.9 and g[0] in gen.PARAM:
        g = (g[0], g[1], g[2], f"theta{pr.randint(0, 3)}")
    return g


def mk_gate(g, variational=False):
    from tangelo.linq import Gate
    name, tg, ct, par = g
    return Gate(name, list(tg), None if ct is None else list(ct), par, is_variational=variational)


def run_history(case, ctx):
    from tangelo.linq import Circuit, Gate, get_backend, translate_circuit, stack
    rng, pr, s = case_rng(ctx.seed, "C11", "history", case["i"])
    n = pr.randint(1, 5)
    fixed = pr.random() < 0.5
    vanish = pr.random() < 0.3
    if vanish:
        # simplification-prone circuits: few gates, mostly variational rotations that are tiny or come with their inverse,
        # so that in-place passes can remove every variational / every gate of some kind
        init_gates = []
        for _ in range(pr.randint(1, 4)):
            nm = pr.choice(gen.ONE_Q_ROT + gen.CTRL_ROT[:3]) if n > 1 else pr.choice(gen.ONE_Q_ROT)
            qs = pr.sample(range(n), 2 if nm.startswith("C") else 1)
            ang = pr.choice([1e-5, -1e-4, 0.0, pr.uniform(-3, 3)])
            g = (nm, qs[:1], qs[1:] or None, ang)
            init_gates.append(g)
            if pr.random() < 0.5:
                init_gates.append((nm, qs[:1], qs[1:] or None, -ang))
        var_p = 0.7
    else:
        init_gates = [rand_gate(pr, n) for _ in range(pr.randint(0, 6))]
        var_p = 0.15
    c = Circuit([mk_gate(g, variational=(pr.random() < var_p and g[0] in gen.PARAM and not isinstance(g[3], str))) for g in init_gates],
                n_qubits=n if fixed else None)
    never_fixed = not fixed
    log = [["init", init_gates, n if fixed else None]]
    check_meta(ctx, c, never_fixed, log)
    steps = pr.randint(1, 12 if ctx.tier == "quick" else 40)
    changing = 0
    # circuits that were only read (operands of +, *, copy, inverse, split, stack): they must stay as they were while the history
    # goes on modifying the results of those operations (a result that aliases its operand shows up here)
    frozen = []

    def freeze(obj, snapshot_, how):
        frozen.append((obj, snapshot_, how, len(log)))
        del frozen[:-8]
    for _ in range(steps):
        numeric = all(not isinstance(g.parameter, str) for g in c)
        unitary_only = not c.is_mixed_state
        ops = ["add", "add", "add_invalid", "plus", "mul", "copy", "trim", "reindex", "split", "stack", "depth", "tr_cirq", "tr_ionq",
               "tr_projectq", "tr_sympy"]
        if numeric:
            ops += ["rsr", "rrg", "merge", "simplify"] * (4 if vanish else 1)
        if numeric and unitary_only:
            ops += ["inverse", "simulate"]
        op = pr.choice(ops)
        before = full_snapshot(c)
        readonly = False
        try:
            if op == "add":
                w = max(c.width, 1) if c._qubits_simulated else max(c.width, 1) + pr.randint(0, 2)
                g = rand_gate(pr, w)
                var = pr.random() < 0.15 and g[0] in gen.PARAM and not isinstance(g[3], str)
                log.append(["add_gate", g, var])
                c.add_gate(mk_gate(g, var))
                changing += 1
            elif op == "add_invalid":
                # a gate beyond a fixed register must be rejected and leave the circuit as it was
                if c._qubits_simulated:
                    q = c._qubits_simulated + pr.randint(0, 2)
                    g = pr.choice([("X", [q], None, ""), ("CNOT", [0 if q else 1], [q], ""), ("RZ", [q], None, 0.3)])
                    if g[0] == "CNOT" and g[1][0] == q:
                        g = ("X", [q], None, "")
                    log.append(["add_gate_out_of_range", g])
                    rejected = False
                    try:
                        c.add_gate(mk_gate(g))
                    except ValueError:
                        rejected = True
                    after = full_snapshot(c)
                    ctx.check("rejected_add_gate_no_effect", rejected and after == before,
                              "an out-of-range add_gate was accepted, or was rejected but changed the circuit",
                              lambda: {"history": log, "rejected": rejected, "before": before, "after": after})
                    if after != before:
                        # re-synchronise so that the defect is reported once
                        c = rebuild(before)
                else:
                    continue
            elif op == "plus":
                m = pr.randint(1, 4)
                d = Circuit([mk_gate(rand_gate(pr, m)) for _ in range(pr.randint(0, 4))], n_qubits=m if pr.random() < 0.4 else None)
                dsnap = full_snapshot(d)
                log.append(["plus", [list(x[:4]) for x in dsnap["gates"]], d._qubits_simulated])
                r = c + d
                ctx.check("readonly_unchanged", full_snapshot(c) == before and full_snapshot(d) == dsnap, "+ changed an operand",
                          lambda: {"history": log})
                if d._qubits_simulated:
                    never_fixed = False
                freeze(c, before, "left operand of +")
                freeze(d, dsnap, "right operand of +")
                c = r
                changing += 1
            elif op == "mul":
                k = pr.randint(1, 3)
                log.append(["mul", k])
                r = c * k
                ctx.check("readonly_unchanged", full_snapshot(c) == before, "* changed its operand", lambda: {"history": log})
                freeze(c, before, "operand of *")
                c = r
                changing += 1
            elif op == "copy":
                log.append(["copy"])
                r = c.copy()
                ctx.check("readonly_unchanged", full_snapshot(c) == before, "copy() changed the original", lambda: {"history": log})
                freeze(c, before, "source of copy()")
                c = r
            elif op == "inverse":
                log.append(["inverse"])
                r = c.inverse()
                ctx.check("readonly_unchanged", full_snapshot(c) == before, "inverse() changed the original", lambda: {"history": log})
                freeze(c, before, "source of inverse()")
                c = r
                changing += 1
            elif op == "trim":
                log.append(["trim_qubits"])
                c.trim_qubits()
                changing += 1
            elif op == "reindex":
                used = sorted(c._qubit_indices)
                if not used:
                    continue
                new = pr.sample(range(len(used) + pr.randint(0, 2)), len(used))
                log.append(["reindex_qubits", new])
                c.reindex_qubits(new)
                changing += 1
            elif op == "split":
                log.append(["split"])
                parts = c.split(trim_qubits=pr.random() < 0.5)
                ctx.check("readonly_unchanged", full_snapshot(c) == before, "split() changed the original", lambda: {"history": log})
                for p_ in parts:
                    check_meta(ctx, p_, True, log + [["part"]])
                if parts:
                    freeze(c, before, "source of split()")
                    c = pr.choice(parts)
                    never_fixed = True
                    changing += 1
            elif op == "stack":
                m = pr.randint(1, 3)
                d = Circuit([mk_gate(rand_gate(pr, m)) for _ in range(pr.randint(1, 3))])
                dsnap = full_snapshot(d)
                log.append(["stack", [list(x[:4]) for x in dsnap["gates"]]])
                r = c.stack(d) if pr.random() < 0.5 else stack(c, d)
                ctx.check("readonly_unchanged", full_snapshot(c) == before and full_snapshot(d) == dsnap, "stack changed an operand",
                          lambda: {"history": log})
                freeze(c, before, "operand of stack")
                freeze(d, dsnap, "operand of stack")
                c = r
                changing += 1
            elif op in ("rsr", "rrg", "merge", "simplify"):
                rq = pr.random() < 0.3
                log.append([op, rq])
                if op == "rsr":
                    c.remove_small_rotations(param_threshold=pr.choice([1e-3, 0.4]), remove_qubits=rq)
                elif op == "rrg":
                    c.remove_redundant_gates(remove_qubits=rq)
                elif op == "merge":
                    c.merge_rotations()
                else:
                    c.simplify(remove_qubits=rq)
                never_fixed = bool(op == "merge" or rq)
                changing += 1
            elif op == "depth":
                log.append(["depth"])
                c.depth()
                readonly = True
            elif op.startswith("tr_"):
                fmt = op[3:]
                log.append(["translate", fmt])
                try:
                    translate_circuit(c, fmt)
                except (ValueError, KeyError, TypeError, AttributeError):
                    ctx.note(f"translate_{fmt}_refused")
                readonly = True
            elif op == "simulate":
                if c.width == 0 or c.width > 6:
                    continue
                log.append(["simulate", "cirq"])
                get_backend("cirq").simulate(c, return_statevector=True)
                readonly = True
        except Exception:
            raise
        if readonly:
            after = full_snapshot(c)
            ctx.check("readonly_unchanged", after == before, f"read-only operation {log[-1]} changed the circuit",
                      lambda: {"history": log, "before": before, "after": after})
            if after != before:
                c = rebuild(before)
        check_meta(ctx, c, never_fixed, log)
        for item in list(frozen):
            obj, snp, how, at = item
            now = full_snapshot(obj)
            ctx.check("operand_stays_unchanged", now == snp,
                      f"a circuit that was only read ({how}, step {at}) changed when the result of that operation was modified later",
                      lambda: {"history": log, "operand_role": how, "at_step": at, "before": snp, "after": now})
            if now != snp:
                frozen.remove(item)
    if changing >= 2:
        ctx.nontrivial(("history", log))
    ctx.sample({"history": log})


def rebuild(snapshot):
    """Fresh circuit from a snapshot (used to re-synchronise after a reported mutation)."""
    from tangelo.linq import Circuit, Gate
    gs = []
    for name, tg, ct, rpar, tname, var in snapshot["gates"]:
        par = eval(rpar, {"nan": float("nan"), "inf": float("inf"), "np": np}) if tname != "str" else eval(rpar)
        gs.append(Gate(name, list(tg), None if ct is None else list(ct), par, is_variational=var))
    return Circuit(gs, n_qubits=snapshot["fixed"])


BAD_GATES = [
    ("negative target", dict(name="X", target=-1)),
    ("float target", dict(name="X", target=1.0)),
    ("bool target", dict(name="X", target=True)),
    ("str target", dict(name="X", target="0")),
    ("negative control", dict(name="CNOT", target=0, control=-2)),
    ("float control", dict(name="CNOT", target=0, control=1.5)),
    ("duplicate target/control", dict(name="CNOT", target=1, control=1)),
    ("duplicate in control list", dict(name="CX", target=0, control=[1, 1])),
    ("duplicate targets", dict(name="SWAP", target=[2, 2])),
    ("two targets on one-target gate", dict(name="H", target=[0, 1])),
    ("one target on two-target gate", dict(name="SWAP", target=[0])),
    ("three targets on XX", dict(name="XX", target=[0, 1, 2])),
    ("one target on CSWAP", dict(name="CSWAP", target=[0], control=[1])),
    ("control on uncontrollable name", dict(name="X", target=0, control=1)),
    ("control on RZ", dict(name="RZ", target=0, control=1, parameter=0.1)),
    ("non-string name", dict(name=5, target=0)),
    ("target list with negative", dict(name="CRZ", target=[0], control=[2, -1], parameter=0.2)),
    ("numpy float target", dict(name="X", target=np.float64(1.0))),
    ("target in control list", dict(name="CZ", target=[3], control=[1, 3])),
    # index containers (lists, tuples, numpy arrays of any dtype) holding non-integers
    ("float ndarray target 1.5", dict(name="X", target=np.array([1.5]))),
    ("float ndarray target -0.5", dict(name="X", target=np.array([-0.5]))),
    ("float-dtype ndarray target 1.0", dict(name="X", target=np.array([1.0]))),
    ("float ndarray control 2.7", dict(name="CX", target=[0], control=np.array([2.7]))),
    ("float ndarray two targets", dict(name="SWAP", target=np.array([0.2, 1.9]))),
    ("float in target list", dict(name="X", target=[1.5])),
    ("float in control tuple", dict(name="CRY", target=0, control=(1, 2.5), parameter=0.3)),
    ("negative in int ndarray", dict(name="CZ", target=np.array([1]), control=np.array([-1]))),
    ("bool ndarray target", dict(name="X", target=np.array([True]))),
    ("duplicate in ndarray controls", dict(name="CX", target=0, control=np.array([2, 2]))),
]


def run_gatefuzz(case, ctx):
    from tangelo.linq import Gate
    rng, pr, s = case_rng(ctx.seed, "C11", "gatefuzz", case["i"])
    for label, kw in BAD_GATES:
        try:
            g = Gate(**kw)
            ok = False
            info = str(g)
        except (ValueError, TypeError) as e:
            ok = True
            info = str(e)
        ctx.check("gate_constructor_rejects", ok, f"malformed gate accepted: {label}", {"kwargs": repr(kw), "result": info})
        ctx.nontrivial(("bad", label))
    # every built-in gate name with a wrong number of targets (with the controls it needs) must be rejected
    right = {nm: 1 for nm in gen.ONE_Q_FIXED + gen.ONE_Q_ROT + gen.CTRL_FIXED + gen.CTRL_ROT}
    right.update({"XX": 2, "SWAP": 2, "CSWAP": 2})
    for nm, k_ok in sorted(right.items()):
        controlled = nm in gen.CTRL_FIXED or nm in gen.CTRL_ROT or nm == "CSWAP"
        for k in (1, 2, 3):
            if k == k_ok:
                continue
            for nc in ((1, 2) if controlled else (0,)):
                qs = list(range(k + nc))
                kw = dict(name=nm, target=qs[:k], control=(qs[k:] if nc else None), parameter=(0.3 if nm in gen.PARAM else ""))
                try:
                    g = Gate(**kw)
                    ok, info = False, str(g)
                except (ValueError, TypeError) as e:
                    ok, info = True, str(e)
                ctx.check("gate_constructor_rejects", ok, f"gate {nm} accepted with {k} target(s) and {nc} control(s)", {"kwargs": repr(kw), "result": info})
    # valid gates with list / ndarray / numpy-int index containers must be accepted and normalised to lists of ints
    for _ in range(20):
        n = pr.randint(2, 6)
        g = None
        while g is None:
            g = gen.random_gate(pr, n)
        name, tg, ct, par = g
        form = pr.choice(["list", "ndarray", "int"])
        t_in = np.array(tg) if form == "ndarray" else (tg[0] if form == "int" and len(tg) == 1 else tg)
        c_in = None if ct is None else (np.array(ct) if form == "ndarray" else (ct[0] if form == "int" and len(ct) == 1 else ct))
        gg = Gate(name, t_in, c_in, par)
        ok = gg.target == list(tg) and gg.control == (None if ct is None else list(ct)) and all(type(q) is int for q in gg.target + (gg.control or []))
        ctx.check("gate_constructor_accepts", ok, "valid gate not normalised to lists of python ints", {"gate": g, "form": form, "got": repr(gg)})


def run_repo_tests(case, ctx):
    """The repository's own circuit tests as an additional workload for the class-level metadata / read-only monitors."""
    from vlib.harness import run_repo_tests_under_monitors
    if case["tier"] == "quick":
        paths = ["tangelo/linq/tests/test_circuits.py", "tangelo/linq/tests/test_gates.py", "tangelo/linq/tests/test_translator_circuit.py"]
        workers = 1
    else:
        paths = ["tangelo/linq/tests", "tangelo/toolboxes/circuits/tests", "tangelo/toolboxes/ansatz_generator/tests", "tangelo/toolboxes/operators/tests/test_trim_trivial_qubits.py"]
        workers = 6
    n = run_repo_tests_under_monitors(ctx, paths, "live_", workers=workers, only=("metadata_", "readonly_", "rejected_"))
    ctx.nontrivial(("repo_tests", tuple(paths)))
    ctx.sample({"sub": "repo_tests", "paths": paths, "monitor_observations": n})


def run_case(case, ctx):
    {"history": run_history, "gatefuzz": run_gatefuzz, "repo_tests": run_repo_tests}[case["sub"]](case, ctx)
