"""C20 - Fourier transform, state initialisation and phase estimation are exact.

Monitor shape: reference-model monitor (DFT matrix, target amplitude vector, exact eigenphase).
"""
import itertools
import math

import numpy as np

from vlib import gen, refsim
from vlib.harness import case_rng

PROPERTY = "C20"
RULE = ("cases: all qubit lists of length 1-4 (thorough: 5) in arbitrary order/position inside a wider circuit x swap on/off x "
        "inverse on/off; seeded amplitude vectors (dense complex, real, sparse, single basis state, n = 1-5, thorough 7) x both "
        "orders x set_n_qubits; QPE / iterative QPE on exact eigenstates of diagonal and non-diagonal commuting Hamiltonians with "
        "every representable phase for register sizes 1-4 (5), Trotter and CircuitUnitary (both control methods). distinct = "
        "hash(qubit list, options) / hash(vector, order) / hash(Hamiltonian, eigenstate, phase, register); non-trivial = register "
        ">= 2 qubits / vector with >= 2 non-zero amplitudes / phase != 0")
ASSUMPTIONS = ["DFT convention: first listed qubit least significant, QFT|x> = N^-1/2 sum_y exp(2 pi i x y / N)|y>",
               "StateVector: circuit|0..0> * exp(i*phase) = v; uncomputing circuit maps v to exp(-i*phase')|0..0>",
               "eigenphase convention: U|psi> = exp(2 pi i phi)|psi>, U = exp(-i H t)  ->  phi = (-E t / 2 pi) mod 1"]
ANCHORS = [
    ("tangelo/toolboxes/ansatz_generator/ansatz_utils.py", "append_qft_rotations_gates,swap_registers,get_qft_circuit", "QFT rotations ladder and register swap"),
    ("tangelo/linq/helpers/circuits/statevector.py", "StateVector", "multiplexed RY/RZ disentangling, global phase, order reversal"),
    ("tangelo/algorithms/projective/qpe.py", "build,simulate,energy_estimation", "QPE register layout, controlled powers, inverse transform, bitstring -> phase"),
    ("tangelo/algorithms/projective/iqpe.py", "build,simulate,return_gates,finalize", "iterative QPE feedback"),
    ("tangelo/toolboxes/unitary_generator/trotter_suzuki.py", "build_circuit", "controlled time evolution"),
    ("tangelo/toolboxes/unitary_generator/unitary_circuit.py", "build_circuit,add_controls", "controlled user circuit"),
]
REQUIRED = {"qft_is_dft": 64, "state_initialisation": 150, "state_uncomputation": 64, "qpe_exact_phase": 15, "iqpe_exact_phase": 9}
BUDGET = {"quick": 240, "thorough": 2400}
TOL = 1e-9


def cases(tier, seed):
    out = []
    maxlen = 4 if tier == "quick" else 5
    for L in range(1, maxlen + 1):
        for k in range(10 if tier == "quick" else 30):
            out.append({"sub": "qft", "L": L, "k": k})
    out += [{"sub": "qft_large", "L": L, "k": k} for L in (range(9, 13) if tier == "quick" else range(7, 15)) for k in range(1 if tier == "quick" else 4)]
    out += [{"sub": "sv", "i": i} for i in range(160 if tier == "quick" else 30000)]
    out += [{"sub": "qpe", "i": i} for i in range(40 if tier == "quick" else 2400)]
    out += [{"sub": "iqpe", "i": i} for i in range(24 if tier == "quick" else 1200)]
    return out


def register_dft(n, qlist, inverse=False, bitrev_out=False, bitrev_in=False):
    """Full 2^n matrix acting as the DFT on the register (qlist[0] least significant), identity elsewhere."""
    L = len(qlist)
    N = 2 ** L
    sgn = -1 if inverse else 1
    F = np.array([[np.exp(sgn * 2j * np.pi * x * y / N) for x in range(N)] for y in range(N)]) / math.sqrt(N)

    def rev(x):
        return int(format(x, f"0{L}b")[::-1], 2) if L else 0
    if bitrev_out:
        F = np.array([F[rev(y), :] for y in range(N)])
    if bitrev_in:
        F = np.array([F[:, rev(x)] for x in range(N)]).T
    # F is indexed by register VALUE with qlist[0] as bit 0 (least significant).  Express it as a matrix on the register qubits
    # in refsim convention (first listed target = most significant index bit of the small matrix): use targets = reversed(qlist)
    return refsim.embed(F, list(reversed(qlist)), [], n)


def register_dft_on_state(psi, qlist, inverse=False, bitrev_out=False, bitrev_in=False):
    """register_dft(len(qlist), qlist, ...) @ psi without the matrix (FFT): psi flat with qubit 0 most significant, register = all qubits."""
    L = len(qlist)
    order = list(reversed(qlist))                       # axis order that makes the flat index the register value (qlist[0] = bit 0)
    v = np.asarray(psi, dtype=complex).reshape((2,) * L).transpose(order).reshape(-1)
    rev = np.array([int(format(x, f"0{L}b")[::-1], 2) for x in range(2 ** L)])
    if bitrev_in:
        v = v[rev]
    y = np.fft.fft(v, norm="ortho") if inverse else np.fft.ifft(v, norm="ortho")
    if bitrev_out:
        y = y[rev]
    return y.reshape((2,) * L).transpose(np.argsort(order)).reshape(-1)


def run_qft_large(case, ctx):
    """Registers of 9..14 qubits (rotation angles down to pi/2**13): the circuit applied to a random state against the FFT."""
    from tangelo.toolboxes.ansatz_generator.ansatz_utils import get_qft_circuit
    rng, pr, s = case_rng(ctx.seed, "C20", "qft_large", case["L"], case["k"])
    L = case["L"]
    # the FFT form of the oracle is first held to the dense matrix form on a small register
    ql = pr.sample(range(3), 3)
    v3 = rng.normal(size=8) + 1j * rng.normal(size=8)
    for inv in (False, True):
        for bo, bi in ((False, False), (True, False), (False, True)):
            if refsim.dist(register_dft(3, ql, inv, bo, bi) @ v3, register_dft_on_state(v3, ql, inv, bo, bi)) > 1e-12:
                raise RuntimeError("harness error: FFT form of the DFT oracle disagrees with its matrix form")
    qlist = list(range(L)) if case["k"] == 0 else pr.sample(range(L), L)
    psi = rng.normal(size=2 ** L) + 1j * rng.normal(size=2 ** L)
    psi /= np.linalg.norm(psi)
    for inverse in (False, True):
        for swap in (True, False):
            c = get_qft_circuit(qlist, inverse=inverse, swap=swap)
            if c.width > L:
                ctx.check("qft_is_dft", False, "QFT circuit acts outside the listed qubits", {"qubits": qlist, "width": c.width})
                continue
            got = refsim.run(gen.from_circuit(c), L, initial=psi)
            exp = register_dft_on_state(psi, qlist, inverse=inverse, bitrev_out=(not swap and not inverse), bitrev_in=(not swap and inverse))
            d = refsim.dist(got, exp)
            ctx.tab("qft_register_size", str(L))
            ctx.check("qft_is_dft", d < TOL, f"QFT circuit on {L} qubits (inverse={inverse}, swap={swap}) is not the discrete Fourier transform of the register",
                      lambda: {"qubits": qlist, "n": L, "inverse": inverse, "swap": swap, "max_diff": d, "n_gates": c.size})
            ctx.nontrivial(("qft_large", tuple(qlist), inverse, swap))


def run_qft(case, ctx):
    from tangelo.toolboxes.ansatz_generator.ansatz_utils import get_qft_circuit
    rng, pr, s = case_rng(ctx.seed, "C20", "qft", case["L"], case["k"])
    L = case["L"]
    n = pr.randint(L, min(6, L + 2))
    qlist = pr.sample(range(n), L)
    if case["k"] == 0:
        qlist = list(range(L))
    if case["k"] == 1:
        qlist = list(reversed(range(L)))
    for inverse in (False, True):
        for swap in (True, False):
            fixed = pr.random() < 0.5
            arg = qlist
            if case["k"] == 0 and pr.random() < 0.5:
                arg = L   # integer form = qubits 0..L-1
            c = get_qft_circuit(arg, n_qubits=n if fixed else None, inverse=inverse, swap=swap)
            if c.width > n:
                ctx.check("qft_is_dft", False, "QFT circuit acts outside the listed qubits", {"qubits": qlist, "width": c.width})
                continue
            u = refsim.unitary(gen.from_circuit(c), n)
            exp = register_dft(n, qlist, inverse=inverse, bitrev_out=(not swap and not inverse), bitrev_in=(not swap and inverse))
            d = refsim.dist(u, exp)
            ctx.check("qft_is_dft", d < TOL, f"QFT circuit (inverse={inverse}, swap={swap}) is not the discrete Fourier transform of the register",
                      lambda: {"qubits": qlist, "n": n, "inverse": inverse, "swap": swap, "max_diff": d, "gates": gen.from_circuit(c)})
            if L >= 2:
                ctx.nontrivial(("qft", tuple(qlist), n, inverse, swap))
    ctx.sample({"sub": "qft", "qubits": qlist, "n": n})


def rand_vector(pr, rng, n):
    kind = pr.choice(["dense", "dense", "real", "sparse", "basis", "negreal", "imag", "twolevel"])
    d = 2 ** n
    if kind == "dense":
        v = rng.normal(size=d) + 1j * rng.normal(size=d)
    elif kind == "real":
        v = rng.normal(size=d).astype(complex)
    elif kind == "negreal":
        v = -np.abs(rng.normal(size=d)).astype(complex)
    elif kind == "imag":
        v = 1j * rng.normal(size=d)
    elif kind == "sparse":
        v = np.zeros(d, dtype=complex)
        for j in pr.sample(range(d), pr.randint(1, max(1, d // 2))):
            v[j] = complex(rng.normal(), rng.normal())
    elif kind == "twolevel":
        v = np.zeros(d, dtype=complex)
        a, b = pr.sample(range(d), 2) if d > 1 else (0, 0)
        v[a] = 1
        v[b] = pr.choice([1, -1, 1j, -1j, np.exp(0.3j)])
    else:
        v = np.zeros(d, dtype=complex)
        v[pr.randrange(d)] = pr.choice([1, -1, 1j, np.exp(1.1j)])
    return kind, v / np.linalg.norm(v)


def to_refsim_order(v, n, order):
    if order == "lsq_first":
        return np.asarray(v)
    return np.transpose(np.asarray(v).reshape((2,) * n), tuple(reversed(range(n)))).reshape(-1)


def run_sv(case, ctx):
    from tangelo.linq.helpers.circuits.statevector import StateVector
    rng, pr, s = case_rng(ctx.seed, "C20", "sv", case["i"])
    n = pr.randint(1, 5 if ctx.tier == "quick" else 7)
    kind, v = rand_vector(pr, rng, n)
    order = pr.choice(["msq_first", "lsq_first"])
    setn = pr.random() < 0.5
    form = pr.choice(["array", "list"])
    coeffs = v if form == "array" else [complex(x) for x in v]
    keep = np.array(v, copy=True)
    sv = StateVector(coeffs, order=order)
    circ, phase = sv.initializing_circuit(return_phase=True, set_n_qubits=setn)
    target = to_refsim_order(v, n, order)
    wit = lambda: {"n": n, "kind": kind, "order": order, "set_n_qubits": setn, "vector": v}
    okw = circ.width <= n   # (set_n_qubits only pads idle top qubits; the property is about the prepared state)
    got = refsim.run(gen.from_circuit(circ), n) * np.exp(1j * phase)
    d = refsim.dist(got, target)
    ctx.check("state_initialisation", okw and d < 1e-8, "initialising circuit x returned phase does not prepare the amplitude vector (in the stated order)",
              lambda: dict(wit(), max_diff=d, width=circ.width, phase=phase))
    unc, ph2 = sv.uncomputing_circuit(return_phase=True, set_n_qubits=setn)
    out = refsim.run(gen.from_circuit(unc), n, target)
    ctx.check("state_uncomputation", unc.width <= n and abs(abs(out[0]) - 1) < 1e-8 and abs(out[0] * np.exp(1j * ph2) - 1) < 1e-8,
              "uncomputing circuit does not map the vector back to |0...0> (times the returned phase)",
              lambda: dict(wit(), amplitude_on_zero=out[0], phase=ph2))
    # without phase request the circuits are the same
    c2 = sv.initializing_circuit()
    ctx.check("state_initialisation", gen.from_circuit(c2) == gen.from_circuit(circ) or refsim.dist_up_to_phase(refsim.run(gen.from_circuit(c2), n), target) < 1e-8,
              "initializing_circuit() without return_phase prepares another state", wit)
    ctx.check("state_initialisation", np.array_equal(np.asarray(coeffs), keep), "StateVector modified the coefficients passed in", wit)
    if np.count_nonzero(np.abs(v) > 1e-12) >= 2:
        ctx.nontrivial(("sv", n, kind, order, case["i"]))
    ctx.sample({"sub": "sv", "n": n, "kind": kind, "order": order, "set_n_qubits": setn})
    ctx.tab("vector_kind_x_order", f"{kind}|{order}")


def eigen_problem(pr, style):
    """Returns (QubitOperator terms, n_state, eigenstate preparation gate list, energy E)."""
    if style == "diag":
        n = pr.randint(1, 3)
        terms = {}
        for _ in range(pr.randint(1, 4)):
            k = pr.randint(1, n)
            t = tuple((i, "Z") for i in sorted(pr.sample(range(n), k)))
            terms[t] = pr.choice([0.5, -0.75, 0.3, 1.0, -0.2])
        if pr.random() < 0.5:
            terms[()] = pr.choice([0.25, -0.4])
        bits = [pr.randint(0, 1) for _ in range(n)]
        prep = [("X", [i], None, "") for i, b in enumerate(bits) if b]
        E = 0.0
        for t, c in terms.items():
            E += c * (-1) ** sum(bits[i] for i, _ in t)
        return terms, n, prep, E
    # non-diagonal commuting: XX, YY, ZZ on two qubits, Bell eigenstates
    cx, cy, cz = pr.choice([0.5, -0.3, 0.7]), pr.choice([0.2, -0.6, 0.4]), pr.choice([0.35, -0.45])
    terms = {((0, "X"), (1, "X")): cx, ((0, "Y"), (1, "Y")): cy, ((0, "Z"), (1, "Z")): cz}
    if pr.random() < 0.5:
        terms[()] = 0.15
    which = pr.randint(0, 3)
    # Bell states: |00>+|11> (xx=+1, yy=-1, zz=+1), |00>-|11> (-1,+1,+1), |01>+|10> (+1,+1,-1), |01>-|10> (-1,-1,-1)
    prep = [("X", [0], None, "")] * (which % 2) + [("X", [1], None, "")] * (which // 2) + [("H", [0], None, ""), ("CNOT", [1], [0], "")]
    psi = refsim.run(prep, 2)
    H = refsim.qubit_operator_matrix(terms, 2)
    E = float(np.real(np.vdot(psi, H @ psi)))
    assert np.linalg.norm(H @ psi - E * psi) < 1e-10
    return terms, 2, prep, E


def pick_time(pr, E, m):
    """time such that phi = (-E t / 2pi) mod 1 = k / 2^m for a chosen k."""
    k = pr.randrange(2 ** m)
    if abs(E) < 1e-9:
        return pr.uniform(0.3, 1.5), 0
    # -E t / (2 pi) = k/2^m + j  (j integer so that t has a comfortable size and either sign)
    j = pr.choice([0, 0, 1, -1])
    t = -(k / 2 ** m + j) * 2 * math.pi / E
    if abs(t) < 1e-9:
        t = -(k / 2 ** m + 1) * 2 * math.pi / E
    return t, k


def bits_of(k, m):
    return format(k, f"0{m}b") if m else ""


def run_qpe(case, ctx, iterative=False):
    from tangelo.linq import Circuit, Gate
    from tangelo.algorithms.projective.qpe import QPESolver
    from tangelo.algorithms.projective.iqpe import IterativeQPESolver
    from tangelo.toolboxes.unitary_generator import CircuitUnitary
    rng, pr, s = case_rng(ctx.seed, "C20", "iqpe" if iterative else "qpe", case["i"])
    m = pr.randint(1, 4 if ctx.tier == "quick" else 5)
    mode = pr.choice(["trotter", "trotter", "circuit_all", "circuit_variational"])
    style = pr.choice(["diag", "bell"])
    terms, n, prep, E = eigen_problem(pr, style)
    ref = gen.to_circuit(prep, n_qubits=n)
    opts = {"size_qpe_register": m, "ref_state": ref,
            "backend_options": {"target": "cirq", "n_shots": 5 if iterative else None}}
    if mode == "trotter":
        t, k = pick_time(pr, E, m)
        op = gen.to_qubit_operator(terms)
        # make sure the Hamiltonian touches the top state qubit, otherwise the register would be placed on a state qubit
        nz = [tt for tt in gen.terms_of(op) if tt]
        if not nz or max(i for tt in nz for i, _ in tt) != n - 1:
            return
        opts["qubit_hamiltonian"] = op
        opts["unitary_options"] = {"time": t, "n_trotter_steps": pr.randint(1, 2), "trotter_order": pr.choice([1, 2]),
                                   "n_steps_method": pr.choice(["time", "repeat"])}
        desc = {"terms": [[list(map(list, tt)), c] for tt, c in terms.items()], "time": t}
    else:
        # user circuit V^dag D(theta) V with D a phase gate marked variational: eigenstate V^dag|1>, eigenphase theta/2pi
        k = pr.randrange(2 ** m)
        theta = 2 * math.pi * k / 2 ** m + pr.choice([0, 2 * math.pi, -2 * math.pi])
        n = pr.randint(1, 2)
        V = gen.random_gates(pr, n, pr.randint(0, 3), names=["H", "PHASE", "X", "RY", "CNOT", "RZ", "Z"], max_controls=1, hostile=0.0)
        Vc = gen.to_circuit(V)
        D = Circuit([Gate("PHASE", 0, parameter=theta, is_variational=True)])
        ucirc = Vc + D + Vc.inverse()
        ref = Circuit([Gate("X", 0)]) + Vc.inverse()
        opts["ref_state"] = ref
        opts["unitary"] = CircuitUnitary(ucirc, control_method="all" if mode == "circuit_all" else "variational")
        desc = {"V": V, "theta": theta}
    wit = lambda: dict(desc, mode=mode, style=style, register=m, expected_bits=bits_of(k, m), E=E, iterative=iterative)
    solver = (IterativeQPESolver if iterative else QPESolver)(opts)
    solver.build()
    np.random.seed(s)
    val = solver.simulate()
    freqs = solver.qpe_freqs
    want = bits_of(k, m)
    p = float(freqs.get(want, 0.0))
    mon = "iqpe_exact_phase" if iterative else "qpe_exact_phase"
    ctx.check(mon, p > 1 - 1e-9 and abs(val - k / 2 ** m) < 1e-12,
              f"phase estimation on an exact eigenstate with representable phase {k}/2^{m} returned {val} with probability {p} for the right bit string",
              lambda: dict(wit(), got_value=val, freqs=freqs))
    if k != 0:
        ctx.nontrivial((mode, style, m, k, case["i"], iterative))
    ctx.sample(dict(sub="iqpe" if iterative else "qpe", mode=mode, style=style, register=m, k=k))
    ctx.tab("qpe_mode_x_register", f"{'iqpe' if iterative else 'qpe'}|{mode}|{m}")


def run_case(case, ctx):
    sub = case["sub"]
    if sub == "qft":
        run_qft(case, ctx)
    elif sub == "qft_large":
        run_qft_large(case, ctx)
    elif sub == "sv":
        run_sv(case, ctx)
    elif sub == "qpe":
        run_qpe(case, ctx, False)
    else:
        run_qpe(case, ctx, True)
