"""C08 - variational solver energies are faithful and variational.

Monitor shape: reference-model monitor + history/invariant monitor.  For each generated solver
configuration the real VQESolver is built, and every call of energy_estimation /
operator_expectation is compared with dense linear algebra on the state that the solver's own
circuit prepares (vlib.refsim); an interleaved call history with injected failures checks that
the solver's target Hamiltonian is the original object after every call.
"""
import warnings

import numpy as np

from vlib import ansatzlib, chem, fock, gen, refsim
from vlib.harness import case_rng

PROPERTY = "C08"
RULE = ("cases = seeded (molecule, ansatz, encoding, ordering, parameter vector) tuples over H2 / H3+ / H3 / H4 (thorough: more, frozen "
        "orbitals, 3-21G) x built-in ansaetze x JW/BK/scBK/JKMN (HCB for pUCCD) x both orderings; reference-state overrides (vector and "
        "Circuit), penalty terms, 1-2 deflation circuits, projective circuit, qubit-Hamiltonian-only solvers with HEA / user circuit; "
        "interleaved histories of energy / expectation calls incl. calls that must raise. distinct = hash(configuration, parameters); "
        "non-trivial = >= 2 non-zero parameters")
ASSUMPTIONS = ["state = vlib.refsim on reference + ansatz (+ projective) circuit; H = dense matrix of solver.qubit_hamiltonian",
               "encoded N / Sz / S^2 for the oracle are obtained from fermion_to_qubit_mapping with explicit, correct arguments (C03/C12)",
               "operator_expectation is called with ref_state=solver.reference_circuit, as the repository's own callers do"]
ANCHORS = [
    ("tangelo/algorithms/variational/vqe_solver.py", "build", "Hamiltonian construction / penalties / ansatz set-up"),
    ("tangelo/algorithms/variational/vqe_solver.py", "energy_estimation", "energy = backend expectation (+ deflation overlaps)"),
    ("tangelo/algorithms/variational/vqe_solver.py", "operator_expectation", "temporary swap of the target operator"),
    ("tangelo/algorithms/variational/vqe_solver.py", "__init__", "reference-state override handling"),
]
REQUIRED = {"optimal_energy_is_expectation_of_optimal_circuit": 16, "solver_hamiltonian_is_molecular_plus_penalty": 30, "energy_is_expectation": 60, "energy_is_variational": 60, "symmetry_expectation": 100, "hamiltonian_restored": 100, "deflation_overlap": 10}
BUDGET = {"quick": 300, "thorough": 3000}
TOL = 1e-7

MOLS = [
    {"label": "H2", "xyz": chem.chain(2, 0.8), "q": 0, "spin": 0, "basis": "sto-3g", "frozen": None, "uhf": False},
    {"label": "H3+", "xyz": chem.chain(3, 0.95), "q": 1, "spin": 0, "basis": "sto-3g", "frozen": None, "uhf": False},
    {"label": "H3", "xyz": chem.chain(3, 1.05), "q": 0, "spin": 1, "basis": "sto-3g", "frozen": None, "uhf": False},
    {"label": "H4", "xyz": chem.chain(4, 1.0), "q": 0, "spin": 0, "basis": "sto-3g", "frozen": None, "uhf": False},
    {"label": "H4frozen", "xyz": chem.chain(4, 0.95), "q": 0, "spin": 0, "basis": "sto-3g", "frozen": [0, 3], "uhf": False},
    {"label": "H2_321g_frozen", "xyz": chem.chain(2, 0.75), "q": 0, "spin": 0, "basis": "3-21g", "frozen": [3], "uhf": False},
    {"label": "H4trip", "xyz": chem.chain(4, 1.2), "q": 0, "spin": 2, "basis": "sto-3g", "frozen": None, "uhf": False},
]
KINDS = ["UCCSD", "UpCCGSD", "UCCGD", "HEA", "QMF", "QCC", "ILC", "VSQS", "pUCCD", "UCC1", "UCC3"]


def cases(tier, seed):
    out = []
    nm = 3 if tier == "quick" else len(MOLS)
    for mi in range(nm):
        for kind in KINDS:
            maps = ["HCB"] if kind == "pUCCD" else (["JW"] if kind in ("UCC1", "UCC3") else ["JW", "BK", "SCBK", "JKMN", "scbk"])
            for mp in maps:
                for utd in ((True,) if kind in ("UCC1", "UCC3") else ((False,) if kind == "pUCCD" else (False, True))):
                    if tier == "quick" and mi > 0 and kind in ("UCCGD", "ILC", "QCC", "VSQS") and mp != "JW":
                        continue
                    if tier == "quick" and mi > 0 and mp == "scbk":
                        continue
                    out.append({"sub": "mol", "mol": mi, "kind": kind, "mapping": mp, "utd": utd})
    if tier == "quick":
        # frozen orbitals (active electron count differs from the molecule's) under the symmetry-conserving encoding
        out += [{"sub": "mol", "mol": 4, "kind": "UCCSD", "mapping": mp, "utd": utd} for mp in ("SCBK", "scbk") for utd in (False, True)]
    out += [{"sub": "qubit_ham", "i": i} for i in range(12 if tier == "quick" else 200)]
    out += [{"sub": "simulate", "i": i} for i in range(15 if tier == "quick" else 150)]
    return out


_mols = {}


def get_mol(mi):
    if mi not in _mols:
        with warnings.catch_warnings():
            warnings.simplefilter("ignore")
            _mols[mi] = chem.build(MOLS[mi])
    return _mols[mi]


def dense_h(qop, n):
    return refsim.qubit_operator_matrix({tuple(t): c for t, c in qop.terms.items()}, n)


def solver_state(solver):
    """State prepared by the circuit the solver uses for its energy (reference override + ansatz + projective)."""
    circ = solver.ansatz.circuit if solver.ref_state is None else solver.reference_circuit + solver.ansatz.circuit
    if solver.projective_circuit:
        circ = circ + solver.projective_circuit
    n = circ.width
    return refsim.run(gen.from_circuit(circ), n), n, circ


def run_mol(case, ctx):
    from tangelo.algorithms.variational import VQESolver, BuiltInAnsatze
    from tangelo.linq import Circuit, Gate
    from tangelo.toolboxes.ansatz_generator.fermionic_operators import number_operator, spinz_operator, spin2_operator
    from tangelo.toolboxes.qubit_mappings.mapping_transform import fermion_to_qubit_mapping, get_qubit_number
    from tangelo.toolboxes.operators import QubitOperator
    kind, mapping, utd = case["kind"], case["mapping"], case["utd"]
    mol = get_mol(case["mol"])
    label = MOLS[case["mol"]]["label"]
    MAP = mapping.upper()
    lib_kind = {"UpCCGSD": "UpCCGSD2", "VSQS": "VSQS1"}.get(kind, kind)
    if not ansatzlib.applicable(lib_kind, mol, MAP, utd if kind not in ("UCC1", "UCC3") else False):
        ctx.note("not_applicable")
        return
    if kind in ("QCC", "ILC") and MAP == "JW" and not utd:
        return   # the solver itself switches to up_then_down=True: covered by the utd=True case
    rng, pr, s = case_rng(ctx.seed, "C08", case["mol"], kind, mapping, utd)
    base = {"molecule": label, "ansatz": kind, "mapping": mapping, "up_then_down": utd}
    opts = {"molecule": mol, "ansatz": getattr(BuiltInAnsatze, kind), "qubit_mapping": mapping, "up_then_down": utd}
    if kind == "UpCCGSD":
        opts["ansatz_options"] = {"k": pr.choice([1, 2, 3])}
    if kind in ("QCC",):
        opts["ansatz_options"] = {"max_qcc_gens": 3}
    if kind in ("ILC",):
        opts["ansatz_options"] = {"max_ilc_gens": 3}
    if kind == "VSQS":
        opts["ansatz_options"] = {"intervals": 3, "time": 0.6}
    variant = pr.choice(["plain", "penalty", "penalty", "deflation", "ref_vector", "ref_circuit", "projective"])
    feats = {variant}
    if variant != "plain" and pr.random() < 0.5:
        # options are combinable: add a second one (the two kinds of reference override exclude each other)
        second = pr.choice([f for f in ("penalty", "deflation", "ref_vector", "ref_circuit", "projective")
                            if f != variant and {f, variant} != {"ref_vector", "ref_circuit"}])
        feats.add(second)
    nq = get_qubit_number(MAP, mol.n_active_sos)
    if "penalty" in feats and kind not in ("UCC1", "UCC3"):
        opts["penalty_terms"] = {"N": [pr.choice([0.5, 2.0]), mol.n_active_electrons], "Sz": [1.0, mol.active_spin / 2]}
        if pr.random() < 0.5:
            opts["penalty_terms"]["S^2"] = [0.7, (mol.active_spin / 2) * (mol.active_spin / 2 + 1)]
    n_defl = 0
    ref_vector = None
    if "deflation" in feats:
        n_defl = pr.randint(1, 2)
        defl = []
        for _ in range(n_defl):
            defl.append(gen.to_circuit(gen.random_gates(pr, nq, pr.randint(1, 5), names=["H", "X", "RY", "CNOT", "RZ"], max_controls=1, hostile=0.0), n_qubits=nq))
        opts["deflation_circuits"] = defl
        opts["deflation_coeff"] = pr.choice([0.4, 1.0, 2.5])
    if "ref_vector" in feats and kind in ("UCCSD", "UpCCGSD", "UCCGD", "HEA") and mol.n_active_sos >= 4:
        # a non-HF determinant with the same electron numbers (interleaved ordering): excite the highest occupied alpha orbital
        v = [0] * mol.n_active_sos
        na, nb = mol.n_active_ab_electrons
        # a random determinant with the same electron numbers (interleaved ordering), different from Hartree-Fock where possible
        for _try in range(8):
            v = [0] * mol.n_active_sos
            for k in pr.sample(range(mol.n_active_sos // 2), na):
                v[2 * k] = 1
            for k in pr.sample(range(mol.n_active_sos // 2), nb):
                v[2 * k + 1] = 1
            if any(v[2 * k] == 0 for k in range(na)) or any(v[2 * k + 1] == 0 for k in range(nb)):
                break
        opts["ref_state"] = v
        ref_vector = list(v)
    if "ref_circuit" in feats and kind in ("UCCSD", "UpCCGSD", "UCCGD", "HEA"):
        from tangelo.toolboxes.qubit_mappings.statevector_mapping import get_reference_circuit
        with warnings.catch_warnings():
            warnings.simplefilter("ignore")
            rc = get_reference_circuit(mol.n_active_sos, mol.n_active_electrons, MAP, utd, mol.active_spin)
        opts["ref_state"] = rc + Circuit([Gate("RY", 0, parameter=0.3)], n_qubits=nq)
    if "projective" in feats:
        opts["projective_circuit"] = Circuit([Gate("RZ", 0, parameter=0.7), Gate("H", nq - 1)], n_qubits=nq)
    variant = "+".join(sorted(feats))
    base["variant"] = variant
    with warnings.catch_warnings():
        warnings.simplefilter("ignore")
        solver = VQESolver(opts)
        solver.build()
        nvp = solver.ansatz.n_var_params
        H0 = solver.qubit_hamiltonian
        H0_terms = dict(H0.terms)
        Hm = None
        lam = None
        thetas = []
        # the Hamiltonian the solver was given: molecular Hamiltonian (+ requested penalties), rebuilt independently in Fock space
        if kind != "pUCCD" and mol.n_active_sos <= 8:
            M = mol.n_active_sos
            Hf = fock.fermion_terms_matrix({tuple(t): c for t, c in mol.fermionic_hamiltonian.terms.items()}, M)
            if "penalty_terms" in opts:
                Nm, Szm, S2m = fock.number_matrices(M, up_then_down=False)
                I = np.eye(2 ** M)
                pt = opts["penalty_terms"]
                for key, mat in (("N", Nm), ("Sz", Szm), ("S^2", S2m)):
                    if key in pt and pt[key][0] > 0:
                        Hf = Hf + pt[key][0] * (mat - pt[key][1] * I) @ (mat - pt[key][1] * I)
            nq_h = get_qubit_number(MAP, M)
            Hq = dense_h(H0, nq_h)
            if MAP == "JW":
                perm = [(p_ // 2 + (M // 2) * (p_ % 2)) if solver.up_then_down else p_ for p_ in range(M)]
                # re-label the Fock matrix: interleaved mode p sits on qubit perm[p]
                idx = np.zeros(2 ** M, dtype=int)
                for b in range(2 ** M):
                    occ = fock.occupations(b, M)
                    new_occ = [0] * M
                    for p_ in range(M):
                        new_occ[perm[p_]] = occ[p_]
                    idx[b] = fock.index_of(new_occ)
                # JW phases: the sign convention of a determinant depends on the mode order, so compare spectra when re-ordered
                if solver.up_then_down:
                    ok = np.max(np.abs(np.linalg.eigvalsh(Hq) - np.linalg.eigvalsh(Hf))) < 1e-7
                else:
                    ok = refsim.dist(Hq, Hf) < 1e-7
            elif MAP in ("BK", "JKMN"):
                ok = np.max(np.abs(np.linalg.eigvalsh(Hq) - np.linalg.eigvalsh(Hf))) < 1e-7
            else:
                na_, nb_ = mol.n_active_ab_electrons
                ix = [i_ for i_ in range(2 ** M) if sum(fock.occupations(i_, M)) % 2 == (na_ + nb_) % 2 and sum(fock.occupations(i_, M)[0::2]) % 2 == na_ % 2]
                blk = Hf[np.ix_(ix, ix)]
                e1, e2 = np.linalg.eigvalsh(blk), np.linalg.eigvalsh(Hq)
                ok = len(e1) == len(e2) and np.max(np.abs(e1 - e2)) < 1e-7
            ctx.check("solver_hamiltonian_is_molecular_plus_penalty", ok,
                      "the solver's qubit Hamiltonian is not (equivalent to) the molecular Hamiltonian plus the requested penalty terms", dict(base))
            if ref_vector is not None and kind in ("UCCSD", "UpCCGSD", "UCCGD") and "projective" not in feats and not n_defl:
                # excitation ansaetze are the identity at zero amplitudes: the energy is that of the requested determinant, read off the
                # independently built Fock-space Hamiltonian (the override must be the determinant the user named, in his ordering)
                e0 = solver.energy_estimation([0.0] * nvp)
                e_det = float(np.real(Hf[fock.index_of(ref_vector), fock.index_of(ref_vector)]))
                ctx.check("reference_override_is_requested_determinant", abs(e0 - e_det) < 1e-7,
                          f"with ref_state={ref_vector} and zero amplitudes the energy {e0:.9f} is not the energy {e_det:.9f} of that determinant",
                          lambda: dict(base, ref_state=ref_vector, energy=e0, determinant_energy=e_det))
        for r in range(2 if ctx.tier == "quick" else 4):
            theta = ansatzlib.rand_params(pr, nvp, pr.choice(["uniform", "uniform", "big", "some_zero", "zeros"]))
            thetas.append(theta)
            e = solver.energy_estimation(list(theta))
            psi, n, circ = solver_state(solver)
            if Hm is None:
                Hm = dense_h(H0, n)
                lam = float(np.linalg.eigvalsh((Hm + Hm.conj().T) / 2)[0])
            exact = float(np.real(np.vdot(psi, Hm @ psi)))
            extra = 0.0
            if n_defl:
                for dc in opts["deflation_circuits"]:
                    phi = refsim.run(gen.from_circuit(dc), n)
                    extra += opts["deflation_coeff"] * abs(np.vdot(phi, psi)) ** 2
                plain_solver_e = exact
                ctx.check("deflation_overlap", abs((e - plain_solver_e) - extra) < 1e-7,
                          "energy with deflation circuits does not exceed the plain energy by the weighted overlap probabilities",
                          lambda: dict(base, theta=theta, energy=e, plain=plain_solver_e, expected_extra=extra))
            ctx.check("energy_is_expectation", abs(e - exact - extra) < TOL, "energy_estimation differs from <psi|H|psi> of the state its circuit prepares",
                      lambda: dict(base, theta=theta, energy=e, expected=exact + extra))
            ctx.check("energy_is_variational", e - extra >= lam - 1e-8, "reported energy is below the lowest eigenvalue of the Hamiltonian",
                      lambda: dict(base, theta=theta, energy=e, lowest_eigenvalue=lam))
            ctx.check("hamiltonian_restored", solver.qubit_hamiltonian is H0 and dict(H0.terms) == H0_terms,
                      "energy_estimation left another target Hamiltonian installed", base)
            if sum(1 for x in theta if abs(x) > 1e-6) >= 2:
                ctx.nontrivial((label, kind, mapping, utd, variant, tuple(round(x, 6) for x in theta)))

        # all-zero UCCSD parameters reproduce the mean-field energy (ties the solver to the chemistry)
        if kind == "UCCSD" and feats <= {"plain", "penalty"}:
            e0 = solver.energy_estimation([0.0] * nvp)
            ctx.check("hf_energy_at_zero", abs(e0 - mol.mf_energy) < 1e-6, "UCCSD energy at zero amplitudes is not the mean-field energy",
                      dict(base, energy=e0, mf_energy=mol.mf_energy))

        # symmetry expectation values under every encoding, bare call (the documented usage with a molecule)
        theta = thetas[-1]
        e_before = solver.energy_estimation(list(theta))
        psi, n, circ = solver_state(solver)
        if kind != "pUCCD" and not (kind in ("UCC1", "UCC3")):
            # the oracle's N, Sz, S^2 are written from their definitions (vlib.fock.symmetry_operator_terms), not taken from the library
            from openfermion import FermionOperator as OFF
            tN, tSz, tS2 = fock.symmetry_operator_terms(mol.n_active_mos)
            ops = {}
            for name, td in (("N", tN), ("Sz", tSz), ("S^2", tS2)):
                o = OFF()
                for t, c in td.items():
                    o += OFF(t, c)
                ops[name] = o
            for name, fop in ops.items():
                q = fermion_to_qubit_mapping(fop, MAP, n_spinorbitals=mol.n_active_sos, n_electrons=mol.n_active_electrons,
                                             up_then_down=solver.up_then_down, spin=mol.active_spin)
                want = float(np.real(np.vdot(psi, dense_h(q, n) @ psi)))
                try:
                    got = solver.operator_expectation(name, var_params=list(theta), ref_state=solver.reference_circuit)
                    ok = abs(got - want) < 1e-6
                    msg = f"operator_expectation('{name}') = {got}, the prepared state has {want}"
                except Exception as ex:  # noqa
                    ok = False
                    got = None
                    msg = f"operator_expectation('{name}') raised {type(ex).__name__}: {str(ex)[:120]} although a molecule is attached to the solver"
                ctx.check("symmetry_expectation", ok, msg, lambda: dict(base, theta=theta, operator=name, got=got, expected=want))
                ctx.check("hamiltonian_restored", solver.qubit_hamiltonian is H0, f"operator_expectation('{name}') did not restore the target Hamiltonian", base)
            # a QubitOperator argument
            qo = QubitOperator(((0, "Z"),), 0.7) + QubitOperator((), 0.2)
            got = solver.operator_expectation(qo, var_params=list(theta), ref_state=solver.reference_circuit)
            want = float(np.real(np.vdot(psi, dense_h(qo, n) @ psi)))
            ctx.check("symmetry_expectation", abs(got - want) < 1e-7, "operator_expectation(QubitOperator) differs from the dense value",
                      lambda: dict(base, theta=theta, got=got, expected=want))
        # injected failure: an operator wider than the circuit must raise, and must not disturb later energies
        wide = QubitOperator(((n + 2, "Z"),), 1.0)
        try:
            solver.operator_expectation(wide, var_params=list(theta), ref_state=solver.reference_circuit)
            raised = False
        except Exception:  # noqa
            raised = True
        ctx.check("hamiltonian_restored", raised and solver.qubit_hamiltonian is H0,
                  "after a failing operator_expectation call the solver's target Hamiltonian is no longer the original object",
                  dict(base, raised=raised))
        try:
            solver.operator_expectation("not an operator", var_params=list(theta))
        except Exception:  # noqa
            pass
        try:
            e_after = solver.energy_estimation(list(theta))
            ok = abs(e_after - e_before) < 1e-9
        except Exception as ex:  # noqa
            ok, e_after = False, repr(ex)
        ctx.check("hamiltonian_restored", ok and solver.qubit_hamiltonian is H0, "energy_estimation changed after interleaved (failing) expectation calls",
                  lambda: dict(base, before=e_before, after=e_after))
        solver.qubit_hamiltonian = H0
    ctx.sample(dict(base, n_var_params=nvp))
    ctx.tab("ansatz_x_mapping", f"{kind}|{mapping}|{utd}")
    ctx.tab("variant", variant)


def run_qubit_ham(case, ctx):
    """Solvers initiated with a qubit Hamiltonian only: HEA and user circuit."""
    from tangelo.algorithms.variational import VQESolver, BuiltInAnsatze
    from tangelo.linq import Circuit, Gate
    rng, pr, s = case_rng(ctx.seed, "C08", "qh", case["i"])
    n = pr.randint(2, 4)
    terms = gen.random_qubit_terms(pr, n, pr.randint(2, 8))
    terms[((n - 1, "Z"),)] = 0.31
    H = gen.to_qubit_operator(terms)
    if case["i"] % 2 == 0:
        opts = {"qubit_hamiltonian": H, "ansatz": BuiltInAnsatze.HEA, "ansatz_options": {"n_qubits": n, "n_electrons": pr.randint(1, n), "n_layers": pr.randint(1, 2)}}
        name = "HEA"
    else:
        gs = [Gate("H", 0)] + [Gate("RY", q, parameter=0.1, is_variational=True) for q in range(n)] + \
             [Gate("CNOT", q + 1, control=q) for q in range(n - 1)] + [Gate("RZ", n - 1, parameter=0.2, is_variational=True)]
        opts = {"qubit_hamiltonian": H, "ansatz": Circuit(gs, n_qubits=n)}
        name = "user circuit"
    with warnings.catch_warnings():
        warnings.simplefilter("ignore")
        solver = VQESolver(opts)
        solver.build()
        Hm = dense_h(H, n)
        lam = float(np.linalg.eigvalsh(Hm)[0])
        for _ in range(3):
            theta = ansatzlib.rand_params(pr, solver.ansatz.n_var_params, pr.choice(["uniform", "big"]))
            e = solver.energy_estimation(list(theta))
            psi, nn, circ = solver_state(solver)
            if nn < n:
                psi = np.kron(psi, np.eye(2 ** (n - nn))[0])
            exact = float(np.real(np.vdot(psi, Hm @ psi)))
            ctx.check("energy_is_expectation", abs(e - exact) < TOL, f"{name}: energy_estimation differs from <psi|H|psi>",
                      lambda: {"ansatz": name, "n": n, "theta": theta, "energy": e, "expected": exact})
            ctx.check("energy_is_variational", e >= lam - 1e-8, f"{name}: energy below the lowest eigenvalue", {"ansatz": name, "energy": e, "lam": lam})
            ctx.nontrivial(("qh", name, n, sorted(map(repr, terms.items())), tuple(theta)))
    ctx.sample({"sub": "qubit_ham", "ansatz": name, "n": n})


def run_simulate(case, ctx):
    """VQESolver.simulate() with the default and with user-supplied optimizers (whose last evaluation is not the point they return):
    the reported optimal energy is <psi|H|psi> of the state optimal_circuit prepares, and energy_estimation(optimal_var_params) agrees."""
    from tangelo.algorithms.variational import VQESolver, BuiltInAnsatze
    from tangelo.linq import Circuit, Gate
    from tangelo.toolboxes.qubit_mappings.mapping_transform import get_qubit_number
    rng, pr, s = case_rng(ctx.seed, "C08", "simulate", case["i"])
    mi = pr.choice([0, 0, 1])
    mol = get_mol(mi)
    kind = pr.choice(["UCCSD", "UCCSD", "HEA", "UpCCGSD", "VSQS"])
    mapping = pr.choice(["JW", "BK", "JKMN", "SCBK"])
    utd = pr.random() < 0.5
    opt_kind = ["default", "nelder_mead", "random_search", "cobyla", "grid_line"][case["i"] % 5]
    nq = get_qubit_number(mapping, mol.n_active_sos)

    def nelder_mead(func, x0):
        from scipy.optimize import minimize
        r = minimize(func, x0, method="Nelder-Mead", options={"maxiter": 25, "maxfev": 40})
        return r.fun, r.x

    def cobyla(func, x0):
        from scipy.optimize import minimize
        r = minimize(func, x0, method="COBYLA", options={"maxiter": 25})
        return r.fun, r.x

    def random_search(func, x0):
        best = (func(list(x0)), list(x0))
        for _ in range(12):
            x = [pr.uniform(-1, 1) for _ in x0]
            e = func(x)
            if e < best[0]:
                best = (e, x)
        func([0.123] * len(x0))      # a last, unrelated evaluation
        return best

    def grid_line(func, x0):
        x0 = list(x0)
        vals = []
        for t in (-0.6, -0.3, 0.0, 0.3, 0.6):
            x = [t] + x0[1:]
            vals.append((func(x), x))
        return min(vals, key=lambda p_: p_[0])

    opts = {"molecule": mol, "ansatz": getattr(BuiltInAnsatze, kind), "qubit_mapping": mapping, "up_then_down": utd,
            "initial_var_params": "random" if kind != "VSQS" else "ones"}
    if kind == "VSQS":
        opts["ansatz_options"] = {"intervals": 2, "time": 0.5}
        opts.pop("initial_var_params")
    if opt_kind != "default":
        opts["optimizer"] = {"nelder_mead": nelder_mead, "random_search": random_search, "cobyla": cobyla, "grid_line": grid_line}[opt_kind]
    extra_feat = pr.choice(["none", "none", "ref_circuit", "projective"])
    if extra_feat == "ref_circuit" and kind in ("UCCSD", "UpCCGSD", "HEA"):
        from tangelo.toolboxes.qubit_mappings.statevector_mapping import get_reference_circuit
        with warnings.catch_warnings():
            warnings.simplefilter("ignore")
            rc = get_reference_circuit(mol.n_active_sos, mol.n_active_electrons, mapping, utd, mol.active_spin)
        opts["ref_state"] = rc + Circuit([Gate("RY", 0, parameter=0.3)], n_qubits=nq)
    if extra_feat == "projective":
        opts["projective_circuit"] = Circuit([Gate("RZ", 0, parameter=0.7), Gate("H", nq - 1)], n_qubits=nq)
    base = {"molecule": MOLS[mi]["label"], "ansatz": kind, "mapping": mapping, "up_then_down": utd, "optimizer": opt_kind, "extra": extra_feat}
    with warnings.catch_warnings():
        warnings.simplefilter("ignore")
        np.random.seed(s % (2 ** 31))
        solver = VQESolver(opts)
        solver.build()
        if solver.ansatz.n_var_params == 0:
            return
        e_opt = solver.simulate()
        circ = solver.optimal_circuit
        n = circ.width
        psi = refsim.run(gen.from_circuit(circ), n)
        Hm = dense_h(solver.qubit_hamiltonian, n)
        exact = float(np.real(np.vdot(psi, Hm @ psi)))
        lam = float(np.linalg.eigvalsh((Hm + Hm.conj().T) / 2)[0])
        ctx.check("optimal_energy_is_expectation_of_optimal_circuit", abs(e_opt - exact) < 1e-7 and abs(solver.optimal_energy - exact) < 1e-7,
                  f"simulate(): optimal_energy {e_opt:.9f} is not <psi|H|psi> = {exact:.9f} of the state optimal_circuit prepares",
                  lambda: dict(base, optimal_energy=e_opt, expectation_of_optimal_circuit=exact, optimal_var_params=list(np.asarray(solver.optimal_var_params, dtype=float))))
        ctx.check("energy_is_variational", e_opt >= lam - 1e-8, "optimal energy is below the lowest eigenvalue of the Hamiltonian",
                  lambda: dict(base, optimal_energy=e_opt, lowest_eigenvalue=lam))
        e_again = solver.energy_estimation(list(solver.optimal_var_params))
        ctx.check("optimal_energy_is_expectation_of_optimal_circuit", abs(e_again - e_opt) < 1e-7,
                  "energy_estimation(optimal_var_params) differs from the optimal energy simulate() reported",
                  lambda: dict(base, optimal_energy=e_opt, re_evaluated=e_again))
    ctx.nontrivial(("simulate", repr(base)))
    ctx.sample(dict(base, sub="simulate"))
    ctx.tab("simulate_optimizer", opt_kind)


def run_case(case, ctx):
    {"mol": run_mol, "qubit_ham": run_qubit_ham, "simulate": run_simulate}[case["sub"]](case, ctx)
