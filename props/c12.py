"""C12 - symmetry operators and penalties are exact; default ansaetze conserve them.

Monitor shape: reference-model monitor (explicit Fock-space matrices of N, Sz, S^2 built from ladder
matrices) + determinant-level agreement with every encoding + conservation monitor on ansatz
states (||(N - N0) psi||, ||(Sz - Sz0) psi|| on the simulated state for random parameters).
"""
import itertools
import warnings

import numpy as np

from vlib import ansatzlib, chem, fock, gen, refsim
from vlib.harness import case_rng

PROPERTY = "C12"
RULE = ("cases: operators as matrices for 1-4 (thorough 5) spatial orbitals in both orderings; every determinant (exhaustive) x encoding "
        "JW/BK/scBK/JKMN x ordering for the encoded N, Sz, S^2; seeded penalty targets / weights; commutation with random restricted "
        "Hamiltonians and real molecular Hamiltonians; particle-conserving ansaetze x molecules x seeded parameter vectors incl. large "
        "values. distinct = hash(n_orbs, ordering, encoding, determinant) / hash(molecule, ansatz, parameters); non-trivial = "
        "determinant with >= 1 occupied and >= 1 empty orbital / ansatz with >= 2 non-zero parameters")
ASSUMPTIONS = ["N, Sz, S^2 = S_-S_+ + Sz(Sz+1) built from vlib.fock ladder matrices are the physical operators",
               "determinant-level clause compares <det|E(O)|det> on the real encoded reference circuit with the Fock diagonal value",
               "ansatz conservation is evaluated under Jordan-Wigner (and pair number under HCB for pUCCD)"]
ANCHORS = [
    ("tangelo/toolboxes/ansatz_generator/fermionic_operators.py", "number_operator,number_operator_list,spinz_operator,spinz_operator_list,spin2_operator,spin2_operator_list", "term lists for N, Sz, S^2"),
    ("tangelo/toolboxes/ansatz_generator/penalty_terms.py", "number_operator_penalty,spin_operator_penalty,spin2_operator_penalty,combined_penalty", "penalty construction and combination"),
    ("tangelo/toolboxes/operators/operators.py", "normal_ordered,squared_normal_ordered,list_to_fermionoperator", "squared normal-ordered operators"),
    ("tangelo/toolboxes/ansatz_generator/uccsd.py", "build_circuit", "UCCSD Pauli-word ordering"),
    ("tangelo/toolboxes/ansatz_generator/upccgsd.py", "build_circuit", "UpCCGSD Pauli-word ordering"),
]
REQUIRED = {"pool_generator_commutes_with_N_Sz": 70, "operator_matrix": 9, "penalty_matrix": 64, "commutes_with_hamiltonian": 25, "encoded_on_determinant": 796, "ansatz_conserves_number_and_spin": 20}
BUDGET = {"quick": 300, "thorough": 3000}
TOL = 1e-9


def cases(tier, seed):
    out = []
    for n_orbs in ([1, 2, 3, 4] if tier == "quick" else [1, 2, 3, 4, 5]):
        for utd in (False, True):
            out.append({"sub": "matrix", "n_orbs": n_orbs, "utd": utd})
    for n_orbs in ([1, 2, 3] if tier == "quick" else [1, 2, 3, 4]):
        for m in ["JW", "BK", "SCBK", "JKMN"]:
            if m == "SCBK" and n_orbs < 2:
                continue
            for utd in (False, True):
                out.append({"sub": "dets", "n_orbs": n_orbs, "mapping": m, "utd": utd})
    out += [{"sub": "commute", "i": i} for i in range(24 if tier == "quick" else 3000)]
    for mi, nch in ([(0, 1), (1, 2), (2, 2), (3, 6)] if tier == "quick" else [(0, 1), (1, 2), (2, 2), (3, 6), (4, 6), (5, 6), (6, 6)]):
        out += [{"sub": "pool", "mol": mi, "chunk": c, "nchunks": nch} for c in range(nch)]
    if tier == "quick":
        # a high-spin reference (|n_alpha - n_beta| = 2) in the quick tier as well
        out += [{"sub": "ansatz", "mol": 4, "kind": k, "rep": r} for k in ("UCCSD", "UCCGD", "UpCCGSD1", "ADAPT") for r in range(2)]
    mols = 3 if tier == "quick" else 7
    for mi in range(mols):
        for kind in sorted(ansatzlib.PARTICLE_CONSERVING) + ["pUCCD", "UpCCGSD4"]:
            for r in range(2 if tier == "quick" else 20):
                out.append({"sub": "ansatz", "mol": mi, "kind": kind, "rep": r})
    return out


def fop_matrix(op, M):
    return fock.fermion_terms_matrix({tuple(t): c for t, c in op.terms.items()}, M)


def run_matrix(case, ctx):
    from tangelo.toolboxes.ansatz_generator.fermionic_operators import number_operator, spinz_operator, spin2_operator
    from tangelo.toolboxes.ansatz_generator.penalty_terms import number_operator_penalty, spin_operator_penalty, spin2_operator_penalty, combined_penalty
    n_orbs, utd = case["n_orbs"], case["utd"]
    M = 2 * n_orbs
    rng, pr, s = case_rng(ctx.seed, "C12", "matrix", n_orbs, utd)
    N, Sz, S2 = fock.number_matrices(M, up_then_down=utd)
    I = np.eye(2 ** M)
    for name, fn, ref in (("N", number_operator, N), ("Sz", spinz_operator, Sz), ("S^2", spin2_operator, S2)):
        got = fop_matrix(fn(n_orbs, up_then_down=utd), M)
        d = refsim.dist(got, ref)
        ctx.check("operator_matrix", d < TOL, f"{name} operator (n_orbs={n_orbs}, up_then_down={utd}) is not the physical operator",
                  {"n_orbs": n_orbs, "up_then_down": utd, "operator": name, "max_diff": d})
        ctx.nontrivial(("matrix", name, n_orbs, utd))
    # penalties: mu (O - v)^2 as matrices; hence PSD and zero exactly on the targeted sector
    for _ in range(6 if n_orbs <= 3 else 2):
        mu = pr.choice([1, 0.5, 2.5, 10])
        ne = pr.randint(0, M)
        sz = pr.choice([0, 0.5, -0.5, 1, -1, 1.5])
        s2 = pr.choice([0, 0.75, 2, 3.75])
        for name, fn, ref, v in (("N", number_operator_penalty, N, ne), ("Sz", spin_operator_penalty, Sz, sz), ("S^2", spin2_operator_penalty, S2, s2)):
            got = fop_matrix(fn(n_orbs, v, mu=mu, up_then_down=utd), M)
            exp = mu * (ref - v * I) @ (ref - v * I)
            d = refsim.dist(got, exp)
            ev = np.linalg.eigvalsh((got + got.conj().T) / 2)
            ctx.check("penalty_matrix", d < 1e-8 and ev.min() > -1e-8, f"{name} penalty is not mu*(O - v)^2 (or not positive semi-definite)",
                      {"n_orbs": n_orbs, "up_then_down": utd, "penalty": name, "mu": mu, "value": v, "max_diff": d, "min_eig": float(ev.min())})
        opts = {"N": [mu, ne], "Sz": [pr.choice([0, 1.5]), sz], "S^2": [pr.choice([0, 0.7]), s2]}
        got = fop_matrix(combined_penalty(n_orbs, opts, up_then_down=utd), M)
        exp = opts["N"][0] * (N - ne * I) @ (N - ne * I) + opts["Sz"][0] * (Sz - sz * I) @ (Sz - sz * I) + opts["S^2"][0] * (S2 - s2 * I) @ (S2 - s2 * I)
        ctx.check("penalty_matrix", refsim.dist(got, exp) < 1e-8, "combined penalty is not the sum of the requested penalties",
                  {"n_orbs": n_orbs, "up_then_down": utd, "options": opts})
        # requests naming only some of the penalties, one after the other in the same process: each is the sum of what IT names
        seq = []
        for _k in range(3):
            keys = pr.sample(["N", "Sz", "S^2"], pr.randint(1, 2))
            sub = {k: [pr.choice([0.5, 1.5, 2.0]), {"N": pr.randint(0, M), "Sz": pr.choice([0, 0.5, -1]), "S^2": pr.choice([0, 0.75, 2])}[k]] for k in keys}
            seq.append(sub)
            got = fop_matrix(combined_penalty(n_orbs, dict(sub), up_then_down=utd), M)
            exp = np.zeros_like(I)
            for k, (w, v) in sub.items():
                ref = {"N": N, "Sz": Sz, "S^2": S2}[k]
                exp = exp + w * (ref - v * I) @ (ref - v * I)
            ctx.check("penalty_matrix", refsim.dist(got, exp) < 1e-8,
                      "combined penalty of a request naming only some penalties is not the sum of the penalties it names",
                      {"n_orbs": n_orbs, "up_then_down": utd, "requests_so_far": seq})
    ctx.sample({"sub": "matrix", "n_orbs": n_orbs, "up_then_down": utd})


def run_dets(case, ctx):
    """Encoded N, Sz, S^2 on every determinant: expectation on the real encoded basis state = Fock diagonal value."""
    from tangelo.toolboxes.ansatz_generator.fermionic_operators import number_operator, spinz_operator, spin2_operator
    from tangelo.toolboxes.qubit_mappings.mapping_transform import fermion_to_qubit_mapping
    from tangelo.toolboxes.qubit_mappings.statevector_mapping import get_mapped_vector, vector_to_circuit
    from props.c05 import basis_expectation, circuit_bits
    n_orbs, mapping, utd = case["n_orbs"], case["mapping"], case["utd"]
    M = 2 * n_orbs
    N, Sz, S2 = fock.number_matrices(M, up_then_down=False)   # determinants are labelled in the interleaved convention
    ops = {"N": number_operator(n_orbs), "Sz": spinz_operator(n_orbs), "S^2": spin2_operator(n_orbs)}
    cache = {}
    for occ in itertools.product((0, 1), repeat=M):
        ne = sum(occ)
        spin = sum(occ[0::2]) - sum(occ[1::2])
        key = (ne % 2, ((ne + spin) // 2) % 2) if mapping == "SCBK" else ()
        if key not in cache:
            cache[key] = {k: fermion_to_qubit_mapping(o, mapping, n_spinorbitals=M, n_electrons=ne, up_then_down=utd, spin=spin) for k, o in ops.items()}
        with warnings.catch_warnings():
            warnings.simplefilter("ignore")
            circ = vector_to_circuit(get_mapped_vector(np.array(occ, dtype=int), mapping, utd))
        bits, _ = circuit_bits(circ, M)
        idx = fock.index_of(occ)
        for name, ref in (("N", N), ("Sz", Sz), ("S^2", S2)):
            e = basis_expectation(cache[key][name], bits)
            want = float(np.real(ref[idx, idx]))
            ctx.check("encoded_on_determinant", abs(e - want) < 1e-9,
                      f"encoded {name} has expectation {e} on determinant {occ}, physical value {want}",
                      {"n_orbs": n_orbs, "mapping": mapping, "up_then_down": utd, "determinant": list(occ), "operator": name, "got": e, "expected": want})
        if 0 < ne < M:
            ctx.nontrivial(("det", n_orbs, mapping, utd, occ))
    ctx.sample({"sub": "dets", "n_orbs": n_orbs, "mapping": mapping, "up_then_down": utd, "determinants": 2 ** M})


_mols = {}


def mol_list(tier):
    base = [
        {"label": "H2", "xyz": chem.chain(2, 0.9), "q": 0, "spin": 0, "basis": "sto-3g", "frozen": None, "uhf": False},
        {"label": "H3+", "xyz": chem.chain(3, 0.95), "q": 1, "spin": 0, "basis": "sto-3g", "frozen": None, "uhf": False},
        {"label": "H3", "xyz": chem.chain(3, 1.05), "q": 0, "spin": 1, "basis": "sto-3g", "frozen": None, "uhf": False},
        {"label": "H4", "xyz": chem.chain(4, 1.0), "q": 0, "spin": 0, "basis": "sto-3g", "frozen": None, "uhf": False},
        {"label": "H4trip", "xyz": chem.chain(4, 1.2), "q": 0, "spin": 2, "basis": "sto-3g", "frozen": None, "uhf": False},
        {"label": "H4+", "xyz": chem.chain(4, 1.1), "q": 1, "spin": 1, "basis": "sto-3g", "frozen": None, "uhf": False},
        {"label": "H2_321g", "xyz": chem.chain(2, 0.8), "q": 0, "spin": 0, "basis": "3-21g", "frozen": None, "uhf": False},
    ]
    return base


def get_mol(mi):
    if mi not in _mols:
        with warnings.catch_warnings():
            warnings.simplefilter("ignore")
            _mols[mi] = chem.build(mol_list("x")[mi])
    return _mols[mi]


def run_commute(case, ctx):
    from tangelo.toolboxes.ansatz_generator.fermionic_operators import number_operator, spinz_operator, spin2_operator
    rng, pr, s = case_rng(ctx.seed, "C12", "commute", case["i"])
    if case["i"] % 3 == 0:
        mi = pr.randrange(3 if ctx.tier == "quick" else 7)
        mol = get_mol(mi)
        if mol.n_active_sos > 8:
            return
        H = {tuple(t): c for t, c in mol.fermionic_hamiltonian.terms.items()}
        n_orbs = mol.n_active_sos // 2
        restricted = True
        label = mol_list("x")[mi]["label"]
    else:
        n_orbs = pr.randint(1, 3)
        restricted = pr.random() < 0.6
        H = fock.random_hermitian_fermion_terms(rng, n_orbs, restricted=restricted)
        label = "random"
    M = 2 * n_orbs
    Hm = fock.fermion_terms_matrix(H, M)
    for name, fn in (("N", number_operator), ("Sz", spinz_operator), ("S^2", spin2_operator)):
        if name == "S^2" and not restricted:
            continue
        O = fop_matrix(fn(n_orbs), M)
        c = float(np.max(np.abs(Hm @ O - O @ Hm)))
        ctx.check("commutes_with_hamiltonian", c < 1e-8, f"{name} does not commute with a {'restricted' if restricted else 'unrestricted'} Hamiltonian ({label})",
                  {"hamiltonian": label, "n_orbs": n_orbs, "operator": name, "commutator_norm": c, "seed_case": case["i"]})
    ctx.nontrivial(("commute", label, n_orbs, case["i"]))
    ctx.sample({"sub": "commute", "hamiltonian": label, "n_orbs": n_orbs, "restricted": restricted})


def run_ansatz(case, ctx):
    kind = case["kind"]
    mol = get_mol(case["mol"])
    label = mol_list("x")[case["mol"]]["label"]
    mapping = "HCB" if kind == "pUCCD" else "JW"
    if mol.n_active_sos > 8 or not ansatzlib.applicable(kind, mol, mapping, False):
        ctx.note("not_applicable")
        return
    rng, pr, s = case_rng(ctx.seed, "C12", "ansatz", case["mol"], kind, case["rep"])
    with warnings.catch_warnings():
        warnings.simplefilter("ignore")
        utd = (case["rep"] % 2 == 1) and kind not in ("UCC1", "UCC3", "pUCCD")
        if kind in ("UCC1", "UCC3"):
            utd = True   # the reduced UCC circuits are written for the all-up-then-all-down ordering (reference |1010>)
        ans = ansatzlib.make(kind, mol, mapping, utd if kind not in ("UCC1", "UCC3") else False, pr=__import__("random").Random(s))
        nvp = ans.n_var_params
        if nvp == 0:
            return
        theta = ansatzlib.rand_params(pr, nvp, pr.choice(["uniform", "big", "uniform", "some_zero"]))
        ans.build_circuit(list(theta))
        if case["rep"] >= 1:
            # also through the update path; half of the time with the zero pattern of the previous vector kept (frozen / masked
            # amplitudes), which is the situation in which the circuit is updated in place rather than rebuilt
            new = ansatzlib.rand_params(pr, nvp, pr.choice(["uniform", "big"]))
            if pr.random() < 0.6:
                if all(x != 0.0 for x in theta):
                    ans_mask = [pr.random() < 0.4 for _ in theta]
                    theta = [0.0 if m else x for m, x in zip(ans_mask, theta)]
                    ans.build_circuit(list(theta))
                new = [0.0 if x == 0.0 else y for x, y in zip(theta, new)]
            theta = new
            ans.update_var_params(list(theta))
    circ = ans.circuit
    n = circ.width
    psi = refsim.run(gen.from_circuit(circ), n)
    if kind == "pUCCD":
        # hard-core-boson register: one qubit per spatial orbital, excitation number = number of pairs
        Np = sum(refsim.pauli_word_matrix([], n) * 0.5 - 0.5 * refsim.pauli_word_matrix([(q, "Z")], n) for q in range(n))
        dev = float(np.linalg.norm(Np @ psi - (mol.n_active_electrons // 2) * psi))
        ctx.check("ansatz_conserves_number_and_spin", dev < 1e-8, "pUCCD state does not carry the reference number of electron pairs",
                  {"molecule": label, "kind": kind, "theta": theta, "deviation": dev})
    else:
        M = mol.n_active_sos
        N, Sz, S2 = fock.number_matrices(M, up_then_down=utd)   # under JW the qubit register is the Fock space
        if n < M:
            psi = np.kron(psi, np.eye(2 ** (M - n))[0])
        n0 = mol.n_active_electrons
        sz0 = mol.active_spin / 2
        dn = float(np.linalg.norm(N @ psi - n0 * psi))
        ds = float(np.linalg.norm(Sz @ psi - sz0 * psi))
        ctx.check("ansatz_conserves_number_and_spin", dn < 1e-8 and ds < 1e-8,
                  f"{kind} state under Jordan-Wigner leaves the reference particle-number / spin-projection sector (|(N-N0)psi|={dn:.2e}, |(Sz-Sz0)psi|={ds:.2e})",
                  {"molecule": label, "kind": kind, "up_then_down": utd, "theta": theta, "dN": dn, "dSz": ds})
    if sum(1 for x in theta if abs(x) > 1e-6) >= 2:
        ctx.nontrivial(("ansatz", label, kind, utd, tuple(round(x, 6) for x in theta)))
    ctx.sample({"sub": "ansatz", "molecule": label, "kind": kind, "n_var_params": nvp})
    ctx.tab("ansatz_x_molecule", f"{kind}|{label}")


def run_pool(case, ctx):
    """ADAPT's fermionic pool, exhaustively: every generator of the pool the solver builds for a molecule (a) commutes with N and Sz as a
    Fock-space matrix and (b) applied alone through ADAPTAnsatz at a random angle to the reference determinant keeps the state in the
    reference (N, Sz) sector.  Odd-electron references matter: a wrongly signed Pauli word only moves weight between N-conserving
    determinants when the reference is closed-shell with two electrons."""
    import tangelo.toolboxes.ansatz_generator as ag
    from tangelo.algorithms.variational import ADAPTSolver
    mol = get_mol(case["mol"])
    label = mol_list("x")[case["mol"]]["label"]
    M = mol.n_active_sos
    rng, pr, s = case_rng(ctx.seed, "C12", "pool", case["mol"], case["chunk"])
    with warnings.catch_warnings():
        warnings.simplefilter("ignore")
        sol = ADAPTSolver({"molecule": mol, "qubit_mapping": "JW", "up_then_down": False})
        sol.build()
    npool = len(sol.pool_operators)
    mine = [k for k in range(npool) if k % case["nchunks"] == case["chunk"]]
    N, Sz, S2 = fock.number_matrices(M, up_then_down=False)
    ne, spin = mol.n_active_electrons, mol.active_spin
    for k in mine:
        G = fop_matrix(sol.fermionic_operators[k], M)
        dn = float(np.abs(G @ N - N @ G).max())
        ds = float(np.abs(G @ Sz - Sz @ G).max())
        ctx.check("pool_generator_commutes_with_N_Sz", dn < 1e-12 and ds < 1e-12,
                  f"fermionic pool operator {k} of {npool} ({label}) does not commute with N / Sz (|[G,N]|={dn:.1e}, |[G,Sz]|={ds:.1e})",
                  lambda: {"molecule": label, "pool_index": k, "operator": str(sol.fermionic_operators[k])[:400], "comm_N": dn, "comm_Sz": ds})
        with warnings.catch_warnings():
            warnings.simplefilter("ignore")
            if pr.random() < 0.5:
                ans = ag.ADAPTAnsatz(M, ne, spin, {"operators": [], "ferm_operators": [], "mapping": "JW", "up_then_down": False})
                ans.build_circuit()
                ans.add_operator(sol.pool_operators[k], sol.fermionic_operators[k])
                ctx.tab("adapt_construction", "grown with add_operator")
            else:
                # restart path: an ansatz re-created from a stored operator list
                ans = ag.ADAPTAnsatz(M, ne, spin, {"operators": [sol.pool_operators[k]], "ferm_operators": [sol.fermionic_operators[k]],
                                                   "mapping": "JW", "up_then_down": False})
                ans.build_circuit()
                ctx.tab("adapt_construction", "reloaded from operator list")
            th = [pr.uniform(-2.5, 2.5)]
            if pr.random() < 0.5:
                ans.build_circuit(th)
            else:
                ans.set_var_params(th)
                ans.update_var_params(th)
        psi = refsim.run(gen.from_circuit(ans.circuit), M)
        dN = float(np.linalg.norm(N @ psi - ne * psi))
        dS = float(np.linalg.norm(Sz @ psi - (spin / 2) * psi))
        ctx.check("ansatz_conserves_number_and_spin", dN < 1e-8 and dS < 1e-8,
                  f"ADAPT with pool operator {k} alone ({label}) leaves the reference sector (|(N-N0)psi|={dN:.2e}, |(Sz-Sz0)psi|={dS:.2e})",
                  lambda: {"molecule": label, "pool_index": k, "n_electrons": ne, "spin": spin, "theta": th, "dN": dN, "dSz": dS})
        ctx.nontrivial(("pool", label, k))
    ctx.tab("pool_operators", label, len(mine))
    ctx.sample({"sub": "pool", "molecule": label, "pool_size": npool, "operators_checked": len(mine)})


def run_case(case, ctx):
    {"matrix": run_matrix, "dets": run_dets, "commute": run_commute, "ansatz": run_ansatz, "pool": run_pool}[case["sub"]](case, ctx)
