"""C13 - reduced density matrices reproduce energies and electron counts.

Monitor shape: reference-model / conservation monitor.  The RDMs returned by the real solvers are
contracted with integrals (by the real energy_from_rdms AND by an own contraction with own
integrals), and checked for Hermiticity, traces and - for the padding helpers - total electron
count, unchanged energy in the full orbital space and bit-identical inputs.
"""
import warnings

import math

import numpy as np

from vlib import ansatzlib, chem, chemref, fock, gen, refsim
from vlib.harness import case_rng

PROPERTY = "C13"
RULE = ("cases = seeded molecule configurations (RHF/ROHF/UHF, frozen orbital patterns) x solvers {FCI, CCSD, MP2 (unfrozen), VQE-UCCSD with "
        "random parameter vectors x JW/BK/scBK/JKMN x both orderings, spin-summed and spin-resolved, UHF variant}. distinct = "
        "hash(molecule spec, solver, encoding, parameters); non-trivial = >= 2 active electrons and >= 1 virtual orbital")
ASSUMPTIONS = ["own contraction E = E_core + sum h_pq g_pq + 1/2 sum (pq|rs) G_pqrs with vlib.chemref integrals (chemist ordering of the 2-RDM)",
               "VQE: <N> and <N(N-1)> from the dense encoded number operator on the simulated state (valid whether or not the state conserves N)",
               "MP2: only the energy and the 1-RDM trace are checked (its 2-RDM is not N-representable)"]
ANCHORS = [
    ("tangelo/algorithms/variational/vqe_solver.py", "get_rdm", "VQE RDM assembly (restricted)"),
    ("tangelo/algorithms/variational/vqe_solver.py", "get_rdm_uhf", "VQE RDM assembly (unrestricted)"),
    ("tangelo/toolboxes/molecular_computation/molecule.py", "energy_from_rdms", "energy contraction"),
    ("tangelo/algorithms/classical/fci_solver.py", "get_rdm", "FCI RDM extraction"),
    ("tangelo/algorithms/classical/ccsd_solver.py", "get_rdm", "CCSD RDM extraction"),
    ("tangelo/toolboxes/molecular_computation/rdms.py", "pad_rdms_with_frozen_orbitals_restricted", "padding (restricted)"),
    ("tangelo/toolboxes/molecular_computation/rdms.py", "pad_rdms_with_frozen_orbitals_unrestricted", "padding (unrestricted)"),
]
REQUIRED = {"energy_from_rdms": 26, "own_contraction": 23, "hermitian": 30, "traces": 33, "padding_electron_count": 4, "padding_energy": 6, "padding_inputs_unchanged": 4}
BUDGET = {"quick": 400, "thorough": 3000}


def cases(tier, seed):
    n = 20 if tier == "quick" else 600
    out = [{"sub": "classical", "i": i} for i in range(n)]
    out += [{"sub": "vqe", "i": i} for i in range(12 if tier == "quick" else 450)]
    # directed: high-spin references under the symmetry-conserving encoding (its spin-parity argument matters only when spin//2 is odd)
    out += [{"sub": "vqe", "i": 10000 + i, "force": "triplet_scbk"} for i in range(3 if tier == "quick" else 90)]
    out += [{"sub": "pad", "i": i} for i in range(10 if tier == "quick" else 300)]
    return out


def herm_err(g1, g2):
    e1 = float(np.max(np.abs(g1 - g1.conj().T)))
    e2 = float(np.max(np.abs(g2 - g2.conj().transpose(1, 0, 3, 2))))
    return max(e1, e2)


def own_energy_restricted(mol, g1, g2):
    pymol = mol.mean_field.mol
    e, h, eri = chemref.restricted_active_space(pymol, np.asarray(mol.mo_coeff), list(mol.frozen_occupied), list(mol.active_mos))
    return float(np.real(e + np.einsum("pq,pq", h, g1) + 0.5 * np.einsum("pqrs,pqrs", eri, g2)))


def own_energy_full(mol, g1, g2):
    pymol = mol.mean_field.mol
    h, eri = chemref.mo_integrals(pymol, np.asarray(mol.mo_coeff))
    return float(np.real(pymol.energy_nuc() + np.einsum("pq,pq", h, g1) + 0.5 * np.einsum("pqrs,pqrs", eri, g2)))


def own_energy_unrestricted(mol, g1, g2, full=False):
    pymol = mol.mean_field.mol
    Ca, Cb = [np.asarray(x) for x in mol.mo_coeff]
    if full:
        na, nb = Ca.shape[1], Cb.shape[1]
        e, hs, eris = chemref.unrestricted_active_space(pymol, Ca, Cb, [], [], list(range(na)), list(range(nb)))
    else:
        fo = mol.frozen_occupied
        e, hs, eris = chemref.unrestricted_active_space(pymol, Ca, Cb, list(fo[0]), list(fo[1]), list(mol.active_mos[0]), list(mol.active_mos[1]))
    val = e + np.einsum("pq,pq", hs[0], g1[0]) + np.einsum("pq,pq", hs[1], g1[1])
    val += 0.5 * np.einsum("pqrs,pqrs", eris[0], g2[0]) + np.einsum("pqrs,pqrs", eris[1], g2[1]) + 0.5 * np.einsum("pqrs,pqrs", eris[2], g2[2])
    return float(np.real(val))


def iterative_solver_converged(sol):
    """False only if the backend coupled-cluster object reports that its amplitude iterations did not converge, or its lambda
    iterations cannot be converged.  (A lambda flag that is merely unset - because the lambda equations were never solved for this
    run - does not excuse anything: the equations are solved here to find out.)"""
    cc = getattr(getattr(sol, "solver", None), "cc_fragment", None)
    if cc is None:
        return True
    if not bool(getattr(cc, "converged", True)):
        return False
    if bool(getattr(cc, "converged_lambda", True)):
        return True
    try:
        import warnings as _w
        with _w.catch_warnings():
            _w.simplefilter("ignore")
            cc.solve_lambda()
        return bool(getattr(cc, "converged_lambda", True))
    except Exception:  # noqa
        return False


def build(spec, ctx):
    try:
        with warnings.catch_warnings():
            warnings.simplefilter("ignore")
            mol = chem.build(spec)
        if hasattr(mol.mean_field, "converged") and not mol.mean_field.converged:
            ctx.note("scf_skipped")
            return None
        return mol
    except (ValueError, NotImplementedError, TypeError):
        ctx.note("configuration_refused")
        return None


def run_classical(case, ctx):
    from tangelo.algorithms.classical import FCISolver, CCSDSolver, MP2Solver
    rng, pr, s = case_rng(ctx.seed, "C13", "classical", case["i"])
    spec = chem.mol_spec(pr, rng)
    mol = build(spec, ctx)
    if mol is None or mol.n_active_sos > 12:
        return
    na, nb = mol.n_active_ab_electrons
    n_el = na + nb
    solvers = ["CCSD"]
    if not mol.uhf:
        solvers.append("FCI")
        if mol.frozen_mos is None and mol.spin == 0:
            # MP2 RDMs are offered for closed-shell references (for ROHF the solver hands back spin-resolved UMP2 intermediates)
            solvers.append("MP2")
    for name in solvers:
        wit = {"spec": spec, "solver": name}
        try:
            with warnings.catch_warnings():
                warnings.simplefilter("ignore")
                sol = {"FCI": FCISolver, "CCSD": CCSDSolver, "MP2": MP2Solver}[name](mol)
                e = sol.simulate()
                g1, g2 = sol.get_rdm()
        except (NotImplementedError,) as ex:
            ctx.note(f"{name}_not_offered")
            continue
        if not iterative_solver_converged(sol):
            # an unconverged amplitude iteration (stretched bonds) has no "solver's energy" the density matrices could reproduce
            ctx.note(f"{name}_iterations_not_converged_skipped")
            continue
        if n_el < 2 and name != "FCI":
            continue
        if mol.uhf:
            e_t = mol.energy_from_rdms(g1, g2)
            ctx.check("energy_from_rdms", abs(e_t - e) < 1e-6, f"{name} (UHF): energy_from_rdms = {e_t:.9f}, solver energy {e:.9f}", dict(wit, got=e_t, energy=e))
            e_o = own_energy_unrestricted(mol, g1, g2)
            ctx.check("own_contraction", abs(e_o - e) < 1e-6, f"{name} (UHF): own contraction of the RDMs gives {e_o:.9f}, solver energy {e:.9f}", dict(wit, got=e_o, energy=e))
            he = max(float(np.max(np.abs(g1[k] - g1[k].conj().T))) for k in range(2))
            he = max(he, float(np.max(np.abs(g2[0] - g2[0].transpose(1, 0, 3, 2)))), float(np.max(np.abs(g2[2] - g2[2].transpose(1, 0, 3, 2)))),
                     float(np.max(np.abs(g2[1] - g2[1].transpose(1, 0, 3, 2)))))
            ctx.check("hermitian", he < 1e-6, f"{name} (UHF): RDMs are not Hermitian", dict(wit, error=he))
            tr = float(np.trace(g1[0]) + np.trace(g1[1]))
            t2 = float(np.einsum("ppqq", g2[0]) + 2 * np.einsum("ppqq", g2[1]) + np.einsum("ppqq", g2[2]))
            ctx.check("traces", abs(tr - n_el) < 1e-6 and abs(t2 - n_el * (n_el - 1)) < 1e-5, f"{name} (UHF): traces {tr}, {t2} are not N, N(N-1) for N={n_el}",
                      dict(wit, trace1=tr, trace2=t2))
        else:
            e_t = mol.energy_from_rdms(g1, g2)
            ctx.check("energy_from_rdms", abs(e_t - e) < 1e-6, f"{name}: energy_from_rdms = {e_t:.9f}, solver energy {e:.9f}", dict(wit, got=e_t, energy=e))
            e_o = own_energy_restricted(mol, g1, g2)
            ctx.check("own_contraction", abs(e_o - e) < 1e-6, f"{name}: own contraction of the RDMs gives {e_o:.9f}, solver energy {e:.9f}", dict(wit, got=e_o, energy=e))
            if name != "MP2":
                he = herm_err(np.asarray(g1), np.asarray(g2))
                ctx.check("hermitian", he < 1e-6, f"{name}: RDMs are not Hermitian", dict(wit, error=he))
            tr = float(np.real(np.trace(g1)))
            t2 = float(np.real(np.einsum("ppqq", g2)))
            ok = abs(tr - n_el) < 1e-6 and (name == "MP2" or abs(t2 - n_el * (n_el - 1)) < 1e-5)
            ctx.check("traces", ok, f"{name}: traces {tr}, {t2} are not N, N(N-1) for N={n_el}", dict(wit, trace1=tr, trace2=t2))
            # the same solver object on the same molecule after its orbitals were rotated (documented re-simulation workflow): the density
            # matrices of the second run belong to the rotated orbitals and must reproduce the second energy with the rotated integrals
            act_occ = [k for k in mol.active_occupied] if hasattr(mol, "active_occupied") else []
            act_vir = [k for k in mol.active_virtual] if hasattr(mol, "active_virtual") else []
            if name in ("CCSD", "FCI") and mol.spin == 0 and case["i"] % 2 == 0 and (len(act_occ) >= 2 or len(act_vir) >= 2):
                i_, j_ = (act_occ[0], act_occ[1]) if (len(act_occ) >= 2 and (len(act_vir) < 2 or pr.random() < 0.5)) else (act_vir[0], act_vir[1])
                ang = pr.uniform(0.3, 1.2)
                rot = np.eye(np.asarray(mol.mo_coeff).shape[1])
                rot[i_, i_] = rot[j_, j_] = math.cos(ang)
                rot[i_, j_], rot[j_, i_] = -math.sin(ang), math.sin(ang)
                C0 = np.array(mol.mo_coeff, copy=True)
                try:
                    with warnings.catch_warnings():
                        warnings.simplefilter("ignore")
                        mol.mo_coeff = C0 @ rot
                        e2 = sol.simulate()
                        h1, h2 = sol.get_rdm()
                    if iterative_solver_converged(sol):
                        e2_t = mol.energy_from_rdms(h1, h2)
                        e2_o = own_energy_restricted(mol, h1, h2)
                        ctx.check("resimulated_rdms", abs(e2 - e) < 1e-6 and abs(e2_t - e2) < 1e-6 and abs(e2_o - e2) < 1e-6,
                                  f"{name}: after rotating two {'occupied' if i_ in act_occ else 'virtual'} orbitals and re-simulating on the same solver object, "
                                  f"energy {e2:.9f} (before {e:.9f}), energy_from_rdms {e2_t:.9f}, own contraction {e2_o:.9f}",
                                  dict(wit, rotated=[int(i_), int(j_)], angle=ang, energy_before=e, energy_after=e2, from_rdms=e2_t, own=e2_o))
                finally:
                    mol.mo_coeff = C0
        ctx.tab("solver_x_reference", f"{name}|{'UHF' if mol.uhf else ('ROHF' if mol.spin else 'RHF')}|{'frozen' if mol.frozen_mos else 'full'}")
    if n_el >= 2 and mol.n_active_sos // 2 > max(na, nb):
        ctx.nontrivial(("classical", repr(spec)))
    ctx.sample({"sub": "classical", "spec": spec, "solvers": solvers})


def run_vqe(case, ctx):
    from tangelo.algorithms.variational import VQESolver, BuiltInAnsatze
    from tangelo.toolboxes.ansatz_generator.fermionic_operators import number_operator
    from tangelo.toolboxes.qubit_mappings.mapping_transform import fermion_to_qubit_mapping
    rng, pr, s = case_rng(ctx.seed, "C13", "vqe", case["i"])
    uhf = case["i"] % 4 == 3
    spec = chem.mol_spec(pr, rng, kinds=["H2", "H3+", "H4", "H2_321g", "H4ring", "H3", "H3", "H4+", "H4"] if uhf else ["H2", "H3+", "H3", "H4", "H2_321g", "H4+"],
                         allow_uhf=False)
    if case.get("force") == "triplet_scbk":
        uhf = False
        spec = chem.mol_spec(pr, rng, kinds=["H4", "H4_triplet_frozen"], allow_uhf=False)
        spec["spin"] = 2
    spec["uhf"] = uhf
    if uhf and spec["frozen"] is not None:
        f = spec["frozen"]
        fl = list(range(f)) if isinstance(f, int) else list(f)
        spec["frozen"] = [fl, fl]
    mol = build(spec, ctx)
    if mol is None or mol.n_active_sos > 8:
        return
    mapping = pr.choice(["JW", "BK", "SCBK", "JKMN"])
    utd = pr.random() < 0.5
    if mol.uhf and mapping == "SCBK":
        mapping = "JW"
    if case.get("force") == "triplet_scbk":
        mapping = "SCBK"
    ctx.tab("vqe_spin_x_mapping", f"spin={mol.spin}|{mapping}")
    wit = {"spec": spec, "mapping": mapping, "up_then_down": utd}
    with warnings.catch_warnings():
        warnings.simplefilter("ignore")
        solver = VQESolver({"molecule": mol, "ansatz": BuiltInAnsatze.UCCSD, "qubit_mapping": mapping, "up_then_down": utd})
        solver.build()
        for r in range(2 if ctx.tier == "quick" else 4):
            theta = ansatzlib.rand_params(pr, solver.ansatz.n_var_params, pr.choice(["uniform", "uniform", "big", "zeros"]))
            # "for any parameter vector": in every other round the RDMs are requested BEFORE any energy evaluation at these parameters,
            # i.e. while the ansatz still holds the previous vector (after build(): its initial one)
            rdm_first = (r % 2 == 0)
            pre = None
            if rdm_first:
                pre = solver.get_rdm_uhf(list(theta)) if mol.uhf else {ss: solver.get_rdm(list(theta), sum_spin=ss) for ss in (True, False)}
            e = solver.energy_estimation(list(theta))
            w = dict(wit, theta=theta, rdm_requested_before_energy=rdm_first)
            if mol.uhf:
                g1, g2 = pre if rdm_first else solver.get_rdm_uhf(list(theta))
                e_t = mol.energy_from_rdms(g1, g2)
                ctx.check("energy_from_rdms", abs(e_t - e) < 1e-6, f"VQE (UHF): energy_from_rdms = {e_t:.9f}, energy_estimation {e:.9f}", dict(w, got=e_t, energy=e))
                tr = float(np.trace(g1[0]) + np.trace(g1[1]))
                circ = solver.ansatz.circuit
                nq = circ.width
                psi = refsim.run(gen.from_circuit(circ), nq)
                na_o, nb_o = mol.n_active_mos
                from tangelo.toolboxes.operators import FermionOperator as TF
                nop = TF()
                for p_ in range(na_o):
                    nop += TF(((2 * p_, 1), (2 * p_, 0)), 1.0)
                for p_ in range(nb_o):
                    nop += TF(((2 * p_ + 1, 1), (2 * p_ + 1, 0)), 1.0)
                qn = fermion_to_qubit_mapping(nop, mapping, n_spinorbitals=mol.n_active_sos, n_electrons=mol.n_active_electrons,
                                              up_then_down=utd, spin=mol.active_spin)
                Nm = refsim.qubit_operator_matrix({tuple(t): c for t, c in qn.terms.items()}, nq)
                n1 = float(np.real(np.vdot(psi, Nm @ psi)))
                ctx.check("traces", abs(tr - n1) < 1e-6, f"VQE (UHF): trace of the 1-RDMs {tr} differs from <N> = {n1} of the prepared state", dict(w, trace1=tr, n=n1))
                he = max(float(np.max(np.abs(g1[k] - g1[k].T))) for k in range(2))
                ctx.check("hermitian", he < 1e-6, "VQE (UHF): 1-RDMs are not symmetric", dict(w, error=he))
                continue
            for sum_spin in (True, False):
                g1, g2 = pre[sum_spin] if rdm_first else solver.get_rdm(list(theta), sum_spin=sum_spin)
                if sum_spin:
                    e_t = mol.energy_from_rdms(g1, g2)
                    ctx.check("energy_from_rdms", abs(e_t - e) < 1e-6, f"VQE: energy_from_rdms = {e_t:.9f}, energy_estimation {e:.9f}", dict(w, got=e_t, energy=e))
                    e_o = own_energy_restricted(mol, g1, g2)
                    ctx.check("own_contraction", abs(e_o - e) < 1e-6, f"VQE: own contraction of the RDMs gives {e_o:.9f}, energy_estimation {e:.9f}", dict(w, got=e_o, energy=e))
                he = herm_err(np.asarray(g1), np.asarray(g2))
                ctx.check("hermitian", he < 1e-6, f"VQE (sum_spin={sum_spin}): RDMs are not Hermitian", dict(w, error=he, sum_spin=sum_spin))
                # <N>, <N(N-1)> of the simulated state through the dense encoded number operator
                circ = solver.ansatz.circuit
                nq = circ.width
                psi = refsim.run(gen.from_circuit(circ), nq)
                qn = fermion_to_qubit_mapping(number_operator(mol.n_active_mos), mapping, n_spinorbitals=mol.n_active_sos,
                                              n_electrons=mol.n_active_electrons, up_then_down=utd, spin=mol.active_spin)
                Nm = refsim.qubit_operator_matrix({tuple(t): c for t, c in qn.terms.items()}, nq)
                n1 = float(np.real(np.vdot(psi, Nm @ psi)))
                n2 = float(np.real(np.vdot(psi, Nm @ (Nm @ psi)))) - n1
                tr = float(np.real(np.trace(g1)))
                t2 = float(np.real(np.einsum("ppqq", g2)))
                ctx.check("traces", abs(tr - n1) < 1e-6 and abs(t2 - n2) < 1e-5, f"VQE (sum_spin={sum_spin}): traces {tr}, {t2} differ from <N>={n1}, <N(N-1)>={n2}",
                          dict(w, trace1=tr, trace2=t2, sum_spin=sum_spin))
            if sum(1 for x in theta if abs(x) > 1e-6) >= 2:
                ctx.nontrivial(("vqe", repr(spec), mapping, utd, tuple(round(x, 6) for x in theta)))
    ctx.sample({"sub": "vqe", "spec": spec, "mapping": mapping, "up_then_down": utd})
    ctx.tab("vqe_mapping", f"{mapping}|{utd}|{'UHF' if mol.uhf else 'R'}")


def run_pad(case, ctx):
    from tangelo.algorithms.classical import FCISolver, CCSDSolver
    from tangelo.toolboxes.molecular_computation.rdms import pad_rdms_with_frozen_orbitals_restricted, pad_rdms_with_frozen_orbitals_unrestricted
    rng, pr, s = case_rng(ctx.seed, "C13", "pad", case["i"])
    uhf = case["i"] % 3 == 2
    kinds = ["H4", "H4ring", "LiH", "H2O", "H2_321g", "H4cluster"]
    for _ in range(20):
        spec = chem.mol_spec(pr, rng, kinds=kinds, allow_uhf=False)
        if spec["frozen"] is None:
            spec["frozen"] = pr.choice([[3], 1, [0], [2]]) if spec["label"] != "H2_321g" else pr.choice([[3], [2]])
        if spec["spin"] == 0:
            break
    spec["uhf"] = uhf
    if uhf:
        f = spec["frozen"]
        fl = list(range(f)) if isinstance(f, int) else list(f)
        fb = list(fl)
        nocc = {"H2O": 5, "H2_321g": 1}.get(spec["label"], 2)
        if nocc >= 2 and pr.random() < 0.6:
            # per-spin frozen lists holding a different number of occupied orbitals
            occ_in = [x for x in fl if x < nocc]
            if occ_in:
                fb.remove(pr.choice(occ_in))
            else:
                fb = sorted(fb + [0])
        spec["frozen"] = [fl, fb]
        ctx.tab("uhf_padding_frozen_lists", "unequal_occupied" if fb != fl else "equal")
    mol = build(spec, ctx)
    if mol is None:
        return
    wit = {"spec": spec}
    with warnings.catch_warnings():
        warnings.simplefilter("ignore")
        sol = CCSDSolver(mol) if (uhf or pr.random() < 0.5) else FCISolver(mol)
        e = sol.simulate()
        g1, g2 = sol.get_rdm()
    if not iterative_solver_converged(sol):
        ctx.note("CCSD_iterations_not_converged_skipped")
        return
    n_total = mol.n_electrons
    if uhf:
        g1 = tuple(np.array(x) for x in g1)
        g2 = tuple(np.array(x) for x in g2)
        keep1 = [x.copy() for x in g1]
        keep2 = [x.copy() for x in g2]
        p1, p2 = pad_rdms_with_frozen_orbitals_unrestricted(mol, g1, g2)
        same = all(np.array_equal(a, b) for a, b in zip(g1, keep1)) and all(np.array_equal(a, b) for a, b in zip(g2, keep2))
        ctx.check("padding_inputs_unchanged", same, "pad_rdms_with_frozen_orbitals_unrestricted altered the arrays passed in",
                  dict(wit, max_change=max(float(np.max(np.abs(a - b))) for a, b in zip(g2, keep2))))
        tr = float(np.trace(p1[0]) + np.trace(p1[1]))
        ctx.check("padding_electron_count", abs(tr - n_total) < 1e-6, f"padded 1-RDMs trace to {tr}, molecule has {n_total} electrons", dict(wit, trace=tr))
        e_full = own_energy_unrestricted(mol, p1, p2, full=True)
        ctx.check("padding_energy", abs(e_full - e) < 1e-6, f"energy of the padded RDMs with full-space integrals {e_full:.9f} differs from the solver energy {e:.9f}",
                  dict(wit, got=e_full, energy=e))
    else:
        g1, g2 = np.array(g1), np.array(g2)
        k1, k2 = g1.copy(), g2.copy()
        p1, p2 = pad_rdms_with_frozen_orbitals_restricted(mol, g1, g2)
        same = np.array_equal(g1, k1) and np.array_equal(g2, k2)
        ctx.check("padding_inputs_unchanged", same, "pad_rdms_with_frozen_orbitals_restricted altered the arrays passed in",
                  dict(wit, max_change=float(np.max(np.abs(g2 - k2)))))
        tr = float(np.real(np.trace(p1)))
        t2 = float(np.real(np.einsum("ppqq", p2)))
        ctx.check("padding_electron_count", abs(tr - n_total) < 1e-6 and abs(t2 - n_total * (n_total - 1)) < 1e-5,
                  f"padded RDMs trace to {tr}, {t2}; molecule has {n_total} electrons", dict(wit, trace1=tr, trace2=t2))
        e_full = own_energy_full(mol, p1, p2)
        ctx.check("padding_energy", abs(e_full - e) < 1e-6, f"energy of the padded RDMs with full-space integrals {e_full:.9f} differs from the solver energy {e:.9f}",
                  dict(wit, got=e_full, energy=e))
        # padding the pristine copies gives the same result (the first call must not have depended on / destroyed state)
        q1, q2 = pad_rdms_with_frozen_orbitals_restricted(mol, k1.copy(), k2.copy())
        ctx.check("padding_energy", float(np.max(np.abs(q2 - p2))) < 1e-10 and float(np.max(np.abs(q1 - p1))) < 1e-10, "padding is not reproducible on pristine inputs", wit)
    ctx.nontrivial(("pad", repr(spec)))
    ctx.sample({"sub": "pad", "spec": spec})


def run_case(case, ctx):
    {"classical": run_classical, "vqe": run_vqe, "pad": run_pad}[case["sub"]](case, ctx)
