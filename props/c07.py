"""C07 - ansatz parameter updates are equivalent to rebuilding the circuit.

Monitor shape: history checker with a shadow model.  A history build_circuit(t0); update(t1); ...;
update(tk) is driven on the real ansatz object; after every step the object's circuit is compared
(action on the reference register |0..0> and on a random state, up to a global phase) with the
circuit of a FRESH object built directly with the current parameters (the shadow).  Length checks
and the zero-parameter clause are evaluated on the same objects.
"""
import warnings

import numpy as np

from vlib import ansatzlib, chem, gen, refsim
from vlib.harness import case_rng

PROPERTY = "C07"
RULE = ("cases = (molecule, ansatz kind, encoding, ordering) x seeded histories of 4-6 (thorough 8-20) parameter updates drawn from "
        "{uniform, |t| up to 8, tiny 1e-9, all zeros, one exact zero, some zeros, repeated value, all negative}; molecules H2, H3+, H3 "
        "(thorough: H4, 3-21G H2, UHF); every built-in ansatz: UCCSD (closed/open/UHF), UCC1, UCC3, UpCCGSD k=1..4, UCCGD, HEA, QMF, "
        "QCC, ILC, VSQS order 1/2 and with navigator, pUCCD, ADAPT with add_operator interleaved, user circuit. distinct = hash(molecule, "
        "kind, encoding, ordering, history); non-trivial = >= 2 updates after the build")
ASSUMPTIONS = ["equivalence = same action on |0..0> and on one random state up to a global phase (vlib.refsim)",
               "the shadow is a fresh object of the same class built with the final parameters on the same molecule object"]
ANCHORS = [
    ("tangelo/toolboxes/ansatz_generator/uccsd.py", "build_circuit,update_var_params", "UCCSD Pauli word -> gate index table / rebuild on support change"),
    ("tangelo/toolboxes/ansatz_generator/upccgsd.py", "build_circuit,update_var_params", "UpCCGSD per-layer index tables"),
    ("tangelo/toolboxes/ansatz_generator/uccgd.py", "build_circuit,update_var_params", "UCCGD stored term order"),
    ("tangelo/toolboxes/ansatz_generator/hea.py", "update_var_params", "HEA positional update"),
    ("tangelo/toolboxes/ansatz_generator/rucc.py", "update_var_params", "RUCC positional update"),
    ("tangelo/toolboxes/ansatz_generator/variational_circuit.py", "update_var_params", "user circuit positional update"),
    ("tangelo/toolboxes/ansatz_generator/puccd.py", "build_circuit,update_var_params", "pUCCD excitation -> gate index"),
    ("tangelo/toolboxes/ansatz_generator/adapt_ansatz.py", "update_var_params,add_operator", "ADAPT per-operator term counts"),
    ("tangelo/toolboxes/ansatz_generator/vsqs.py", "update_var_params,_update_gate_params_for_qu_op", "VSQS block offsets"),
    ("tangelo/toolboxes/ansatz_generator/qcc.py", "build_circuit,update_var_params", "QCC mapping cache"),
    ("tangelo/toolboxes/ansatz_generator/ilc.py", "build_circuit,update_var_params", "ILC mapping cache"),
    ("tangelo/toolboxes/ansatz_generator/qmf.py", "build_circuit,update_var_params", "QMF positional update"),
]
REQUIRED = {"live_observations_total": 10, "update_equals_rebuild": 300, "wrong_length_rejected": 100, "zero_parameters_give_reference": 20}
BUDGET = {"quick": 300, "thorough": 3000}
TOL = 1e-7

MOLS_QUICK = [
    {"label": "H2", "xyz": chem.chain(2, 0.74), "q": 0, "spin": 0, "basis": "sto-3g", "frozen": None, "uhf": False},
    {"label": "H3+", "xyz": chem.chain(3, 0.9), "q": 1, "spin": 0, "basis": "sto-3g", "frozen": None, "uhf": False},
    {"label": "H3", "xyz": chem.chain(3, 1.0), "q": 0, "spin": 1, "basis": "sto-3g", "frozen": None, "uhf": False},
    # two occupied and two virtual orbitals (several pair excitations, layer packing); quick tier: pUCCD and UCCSD/JW only
    {"label": "H4", "xyz": chem.chain(4, 1.0), "q": 0, "spin": 0, "basis": "sto-3g", "frozen": None, "uhf": False},
]
MOLS_THOROUGH = MOLS_QUICK + [
    {"label": "H2uhf", "xyz": chem.chain(2, 1.5), "q": 0, "spin": 0, "basis": "sto-3g", "frozen": None, "uhf": True},
    {"label": "H4trip", "xyz": chem.chain(4, 1.1), "q": 0, "spin": 2, "basis": "sto-3g", "frozen": None, "uhf": False},
    {"label": "H3+uhf", "xyz": chem.chain(3, 1.0), "q": 1, "spin": 0, "basis": "sto-3g", "frozen": None, "uhf": True},
]
MAPPINGS = ["JW", "BK", "SCBK", "JKMN"]


def cases(tier, seed):
    mols = MOLS_QUICK if tier == "quick" else MOLS_THOROUGH
    out = []
    for mi, m in enumerate(mols):
        for kind in ansatzlib.KINDS:
            maps = ["HCB"] if kind == "pUCCD" else (["JW"] if kind in ("UCC1", "UCC3", "VarCircuit") else MAPPINGS)
            for mp in maps:
                for utd in ((False,) if kind in ("UCC1", "UCC3", "VarCircuit", "pUCCD") else (False, True)):
                    if tier == "quick" and m["label"] == "H4" and not (kind == "pUCCD" or (kind == "UCCSD" and mp == "JW" and not utd)):
                        continue
                    if tier == "quick":
                        # quick: every kind on H2 with all encodings; on the larger molecules JW + one other encoding
                        if mi > 0 and mp not in ("JW", MAPPINGS[1 + (len(out) % 3)]) and mp != "HCB":
                            continue
                        if mi > 0 and kind in ("UCCGD", "UpCCGSD4", "ILC", "VSQS2", "VSQSnav", "VSQSnav2", "QCC") and mp != "JW":
                            continue
                    reps = 1 if tier == "quick" else 2
                    for r in range(reps):
                        out.append({"sub": "history", "mol": mi, "kind": kind, "mapping": mp, "utd": utd, "rep": r})
    out.append({"sub": "repo_tests", "tier": tier})
    return out


_mol_cache = {}


def get_mol(tier, mi):
    if (tier, mi) not in _mol_cache:
        spec = (MOLS_QUICK if tier == "quick" else MOLS_THOROUGH)[mi]
        with warnings.catch_warnings():
            warnings.simplefilter("ignore")
            _mol_cache[(tier, mi)] = chem.build(spec)
    return _mol_cache[(tier, mi)]


def circuit_gates(circ):
    gl = gen.from_circuit(circ)
    for g in gl:
        if isinstance(g[3], str) and g[3] != "":
            raise ValueError("symbolic parameter left in ansatz circuit")
    return gl


def states_of(circ, n, probe):
    gl = circuit_gates(circ)
    return refsim.run(gl, n), refsim.run(gl, n, probe)


def equivalent(c1, c2, rng_probe_cache):
    n = max(c1.width, c2.width)
    if n not in rng_probe_cache:
        rng_probe_cache[n] = gen.random_state(np.random.default_rng(12345 + n), n)
    a0, a1 = states_of(c1, n, rng_probe_cache[n])
    b0, b1 = states_of(c2, n, rng_probe_cache[n])
    return max(refsim.dist_up_to_phase(a0, b0), refsim.dist_up_to_phase(a1, b1))


def run_history(case, ctx):
    kind, mapping, utd = case["kind"], case["mapping"], case["utd"]
    mol = get_mol(ctx.tier, case["mol"])
    if not ansatzlib.applicable(kind, mol, mapping, utd):
        ctx.note("not_applicable")
        return
    rng, pr, s = case_rng(ctx.seed, "C07", case["mol"], kind, mapping, utd, case["rep"])
    pr_adapt = __import__("random").Random(s)
    label = (MOLS_QUICK if ctx.tier == "quick" else MOLS_THOROUGH)[case["mol"]]["label"]
    base = {"molecule": label, "kind": kind, "mapping": mapping, "up_then_down": utd}
    with warnings.catch_warnings():
        warnings.simplefilter("ignore")
        ans = ansatzlib.make(kind, mol, mapping, utd, pr=__import__("random").Random(s))
        nvp = ans.n_var_params
        if nvp == 0:
            ctx.note("no_parameters")
            return
        probes = {}
        hist = []
        steps = pr.randint(4, 6) if ctx.tier == "quick" else pr.randint(8, 20 if nvp < 30 else 10)
        theta = ansatzlib.rand_params(pr, nvp, pr.choice(["uniform", "zeros", "one_zero", "uniform"]))
        hist.append(["build", theta])
        ans.build_circuit(list(theta)) if kind != "ADAPT" else (ans.build_circuit(list(theta)))
        prev = theta
        for k in range(steps + 1):
            if k > 0:
                style = pr.choice(ansatzlib.STYLES + ["minus_prev", "same_zero_pattern", "same_zero_pattern", "revisit", "revisit"])
                earlier = [h_[-1] for h_ in hist if h_[0] in ("build", "update") and len(h_[-1]) == nvp]
                if style == "revisit" and len(earlier) >= 2:
                    # optimisers re-evaluate points: exactly the same values as at an earlier step (not the latest one)
                    theta = list(pr.choice(earlier[:-1]))
                    if pr.random() < 0.6:
                        # ... with a structure-changing point (exact zeros -> rebuild) in between
                        mid = ansatzlib.rand_params(pr, nvp, pr.choice(["zeros", "some_zero", "one_zero"]))
                        hist.append(["update", "before_revisit", mid])
                        if kind == "ADAPT":
                            ans.set_var_params(list(mid))
                        ans.update_var_params(list(mid))
                elif style == "minus_prev":
                    theta = [-x for x in prev]
                elif style == "same_zero_pattern":
                    # frozen / masked amplitudes: new values, zeros stay where they were (if there were none, mask some first)
                    if all(x != 0.0 for x in prev):
                        prev = [0.0 if pr.random() < 0.4 else x for x in prev]
                        hist.append(["update", "mask", prev])
                        if kind == "ADAPT":
                            ans.set_var_params(list(prev))
                        ans.update_var_params(list(prev))
                    fresh_vals = ansatzlib.rand_params(pr, len(prev), "uniform")
                    theta = [0.0 if x == 0.0 else y for x, y in zip(prev, fresh_vals)]
                else:
                    theta = ansatzlib.rand_params(pr, nvp, "uniform" if style == "revisit" else style)
                if len(theta) != nvp:
                    theta = ansatzlib.rand_params(pr, nvp, "uniform")
                if kind == "ADAPT" and k == steps // 2:
                    # interleave add_operator: grows the parameter vector by one
                    from tangelo.algorithms.variational import ADAPTSolver
                    sol = ADAPTSolver({"molecule": mol, "qubit_mapping": mapping, "up_then_down": utd})
                    sol.build()
                    j = pr.randrange(len(sol.pool_operators))
                    ans.add_operator(sol.pool_operators[j], sol.fermionic_operators[j])
                    nvp = ans.n_var_params
                    theta = ansatzlib.rand_params(pr, nvp, "uniform")
                    hist.append(["add_operator", j])
                hist.append(["update", style, theta])
                if kind == "ADAPT":
                    ans.set_var_params(list(theta))
                ans.update_var_params(list(theta) if pr.random() < 0.5 else np.array(theta))
                prev = theta
            # shadow: fresh object built with the current parameters
            if kind == "ADAPT":
                import tangelo.toolboxes.ansatz_generator as ag
                fresh = ag.ADAPTAnsatz(ans.n_spinorbitals, ans.n_electrons, ans.spin,
                                       {"operators": list(ans.operators), "ferm_operators": list(ans.ferm_operators),
                                        "mapping": ans.mapping, "up_then_down": ans.up_then_down})
                fresh.build_circuit(list(theta))
            else:
                fresh = ansatzlib.make(kind, mol, mapping, utd)
                fresh.build_circuit(list(theta))
            d = equivalent(ans.circuit, fresh.circuit, probes)
            ctx.check("update_equals_rebuild", d < TOL, f"{kind}: circuit after the update history differs from a fresh build with the same parameters",
                      lambda: dict(base, history=hist, max_diff=d, step=k))
            if d >= TOL:
                break
        if steps >= 2:
            ctx.nontrivial((label, kind, mapping, utd, repr(hist)))
        ctx.sample(dict(base, n_var_params=nvp, steps=len(hist), first=hist[0][1][:4]))
        ctx.tab("kind_x_mapping", f"{kind}|{mapping}|{utd}")

        # parameter-vector length must be enforced by every entry point
        nvp = ans.n_var_params
        for delta in (1, -1, 3):
            m = nvp + delta
            if m < 0:
                continue
            bad = [0.1] * m
            for entry in ("set_var_params", "update_var_params", "build_circuit"):
                obj = ansatzlib.make(kind, mol, mapping, utd, pr=__import__("random").Random(s))
                if kind == "ADAPT":
                    nv2 = obj.n_var_params
                    bad = [0.1] * max(0, nv2 + delta)
                obj.build_circuit()
                try:
                    getattr(obj, entry)(list(bad))
                    ok = False
                except (ValueError, AssertionError, IndexError, TypeError):
                    ok = True
                ctx.check("wrong_length_rejected", ok, f"{kind}.{entry} accepted a vector of length {len(bad)} although n_var_params = {obj.n_var_params}",
                          dict(base, entry=entry, given=len(bad), n_var_params=obj.n_var_params))
        # zero parameters -> reference state (excitation-based ansaetze)
        if kind in ansatzlib.EXCITATION_BASED:
            z = ansatzlib.make(kind, mol, mapping, utd, pr=__import__("random").Random(s))
            z.build_circuit([0.0] * z.n_var_params)
            ref = z.prepare_reference_state()
            n = max(z.circuit.width, ref.width)
            a = refsim.run(circuit_gates(z.circuit), n)
            b = refsim.run(circuit_gates(ref), n)
            dz = refsim.dist_up_to_phase(a, b)
            ctx.check("zero_parameters_give_reference", dz < TOL, f"{kind}: all-zero parameters do not prepare the reference state",
                      dict(base, max_diff=dz))
            # ... also when reached through an update from non-zero parameters
            z.update_var_params(ansatzlib.rand_params(pr, z.n_var_params, "uniform"))
            z.update_var_params([0.0] * z.n_var_params)
            a = refsim.run(circuit_gates(z.circuit), n)
            dz = refsim.dist_up_to_phase(a, b)
            ctx.check("zero_parameters_give_reference", dz < TOL, f"{kind}: updating to all-zero parameters does not give back the reference state",
                      dict(base, max_diff=dz))


def run_repo_tests(case, ctx):
    """The repository's own ansatz / VQE tests as an additional workload: after (a sample of) the update_var_params calls made anywhere
    in the library the circuit is compared with a fresh build_circuit of a deep copy of the ansatz (vlib.livemon, monitor C07)."""
    from vlib.harness import repo_tests_case
    repo_tests_case(case, ctx, ["tangelo/toolboxes/ansatz_generator/tests/test_uccsd.py", "tangelo/toolboxes/ansatz_generator/tests/test_upccgsd.py",
                                "tangelo/toolboxes/ansatz_generator/tests/test_qcc.py", "tangelo/toolboxes/ansatz_generator/tests/test_hea.py",
                                "tangelo/toolboxes/ansatz_generator/tests/test_vsqs.py", "tangelo/toolboxes/ansatz_generator/tests/test_rucc.py"],
                    ["tangelo/toolboxes/ansatz_generator/tests", "tangelo/algorithms/variational/tests/test_vqe_solver.py",
                     "tangelo/algorithms/variational/tests/test_adapt_vqe_solver.py"],
                    only=("update_equals_rebuild_",), semantic=("C07",))


def run_case(case, ctx):
    if case["sub"] == "repo_tests":
        return run_repo_tests(case, ctx)
    run_history(case, ctx)
