"""C09 - circuit transformations preserve the implemented operation.

Monitor shape: reference-model monitor (dense unitary of input vs prescribed function of the unitary
of the output) + snapshot invariant (out-of-place operations must not change their operand).
"""
import math

import numpy as np

from vlib import gen, refsim
from vlib.harness import case_rng

PROPERTY = "C09"
RULE = ("cases = seeded random circuits over the invertible gate set with hostile angles (multiples of pi/2 up to 6*pi "
        "+- tiny offsets), echo gates (same gate repeated with -t, 2pi-t, 4pi-t), 1-3 controls, index gaps and fixed widths; "
        "each is pushed through inverse, the three passes (function and method form), simplify, split/stack, trim, reindex, "
        "copy, +, *; plus all Clifford angles k*pi/2 for RX/RY/RZ/PHASE and gate-equality pairs. distinct = hash(gate list, "
        "width, operation); non-trivial = >= 2 entangling/parameterised gates")
ASSUMPTIONS = ["vlib.refsim unitaries (<= 6 qubits) are the oracle; phase alignment by the overlap tr(U^dag V)",
               "dropped-rotation bound: threshold x number of removed gates (as stated in the property)"]
ANCHORS = [
    ("tangelo/linq/gate.py", "__eq__,inverse", "gate inverse rules and equality"),
    ("tangelo/linq/circuit.py", "inverse", "circuit inverse"),
    ("tangelo/linq/circuit.py", "remove_small_rotations", "small-rotation removal"),
    ("tangelo/linq/circuit.py", "merge_rotations", "rotation merging"),
    ("tangelo/linq/circuit.py", "remove_redundant_gates", "redundant gate cancellation"),
    ("tangelo/linq/circuit.py", "simplify", "fixed-point iteration of the passes"),
    ("tangelo/linq/circuit.py", "trim_qubits,reindex_qubits,get_entangled_indices,split,stack", "split / trim / reindex / stack"),
    ("tangelo/linq/helpers/circuits/clifford_circuits.py", "decompose_gate_to_cliffords", "Clifford decomposition tables"),
    ("tangelo/toolboxes/operators/trim_trivial_qubits.py", "is_bitflip_gate,trim_trivial_circuit", "trimming of qubits left in a computational-basis state"),
]
REQUIRED = {"live_observations_total": 5, "inverse": 100, "merge_rotations": 100, "remove_redundant_gates": 100, "remove_small_rotations": 100, "simplify": 100, "split_stack": 50, "trim_qubits": 50, "reindex_qubits": 25, "copy_add_mul": 100, "gate_equality": 200, "clifford_decomposition": 100, "input_unchanged": 300, "trim_trivial_circuit": 60}
BUDGET = {"quick": 240, "thorough": 2400}
TOL = 1e-9


def cases(tier, seed):
    n = 480 if tier == "quick" else 80000
    out = [{"sub": "circ", "i": i} for i in range(n)]
    out += [{"sub": "eq", "i": i} for i in range(16 if tier == "quick" else 400)]
    out += [{"sub": "clifford", "kmax": 12 if tier == "quick" else 64}]
    out += [{"sub": "reindex", "i": i} for i in range(64 if tier == "quick" else 4000)]
    out += [{"sub": "gaptrim", "i": i} for i in range(96 if tier == "quick" else 8000)]
    out += [{"sub": "trivial_trim", "i": i} for i in range(120 if tier == "quick" else 6000)]
    out.append({"sub": "repo_tests", "tier": tier})
    return out


def snap(circ):
    return [(g.name, tuple(g.target), None if g.control is None else tuple(g.control), repr(g.parameter), type(g.parameter).__name__,
             g.is_variational) for g in circ] + [("width", circ.width)]


def U(circ_or_gates, n):
    gl = circ_or_gates if isinstance(circ_or_gates, list) else gen.from_circuit(circ_or_gates)
    return refsim.unitary(gl, n)


def same_up_to_phase(a, b, tol=TOL):
    return refsim.dist_up_to_phase(a, b) < tol


def op_dist(a, b):
    """spectral-norm distance up to global phase"""
    if a.shape != b.shape:
        return float("inf")
    b2 = refsim.phase_align(a, b)
    return float(np.linalg.norm(a - b2, 2))


def gen_circuit(pr, tier):
    n = pr.randint(1, 5 if tier == "quick" else 6)
    ng = pr.randint(0, 14 if pr.random() < 0.8 else 30)
    style = pr.random()
    if style < 0.35:
        # merge/cancel-prone: few distinct qubit sets, many echoes, rotation heavy
        names = gen.ONE_Q_ROT + gen.CTRL_ROT + ["H", "X", "S", "T", "CNOT", "CZ", "XX", "SWAP"]
        gates = gen.random_gates(pr, n, ng, names=names, max_controls=2, hostile=0.6, echo=0.5)
    else:
        gates = gen.random_gates(pr, n, ng, hostile=0.35, echo=0.2)
    return n, gates


def run_circ(case, ctx):
    from tangelo.linq import Circuit, stack
    from tangelo.linq import circuit as cmod
    rng, pr, s = case_rng(ctx.seed, "C09", "circ", case["i"])
    n, gates = gen_circuit(pr, ctx.tier)
    fixed = pr.random() < 0.5
    c = gen.to_circuit(gates, n_qubits=n if fixed else None)
    w = c.width
    if w == 0:
        return
    u = U(gates, w)
    before = snap(c)
    base_wit = {"gates": gates, "n_qubits": n if fixed else None}
    if gen.nontrivial_circuit(gates):
        ctx.nontrivial(("circ", gates, n if fixed else None))
    ctx.sample(base_wit)

    def unchanged(opname):
        nonlocal c
        after = snap(c)
        ctx.check("input_unchanged", after == before, f"{opname} changed its input circuit",
                  lambda: dict(base_wit, op=opname, before=before, after=after))
        if after != before:
            # rebuild, so that one mutation is reported once and does not cascade into the other monitors
            c = gen.to_circuit(gates, n_qubits=n if fixed else None)

    # inverse -> exact adjoint
    ci = c.inverse()
    ctx.check("inverse", ci.width == w and refsim.dist(U(ci, w), u.conj().T) < TOL, "Circuit.inverse() is not the adjoint",
              lambda: dict(base_wit, inverse=gen.from_circuit(ci)))
    unchanged("inverse")

    # out-of-place passes (module-level functions)
    cm = cmod.merge_rotations(c)
    unchanged("merge_rotations(circuit)")
    ctx.check("merge_rotations", cm.width <= w and same_up_to_phase(u, U(cm, w)), "merge_rotations changed the unitary",
              lambda: dict(base_wit, result=gen.from_circuit(cm)))
    cr = cmod.remove_redundant_gates(c)
    unchanged("remove_redundant_gates(circuit)")
    ctx.check("remove_redundant_gates", cr.width <= w and same_up_to_phase(u, U(cr, w)), "remove_redundant_gates changed the unitary",
              lambda: dict(base_wit, result=gen.from_circuit(cr)))
    thr = pr.choice([1e-3, 1e-3, 1e-5, 1e-2, 0.35])
    cs = cmod.remove_small_rotations(c, param_threshold=thr)
    unchanged("remove_small_rotations(circuit)")
    dropped = c.size - cs.size
    ctx.check("remove_small_rotations", cs.width <= w and op_dist(u, U(cs, w)) <= thr * dropped + TOL,
              f"remove_small_rotations(threshold={thr}) moved the unitary by more than threshold x {dropped} dropped gates",
              lambda: dict(base_wit, threshold=thr, dropped=dropped, distance=op_dist(u, U(cs, w)), result=gen.from_circuit(cs)))
    thr2 = pr.choice([1e-3, 1e-3, 1e-6, 0.05])
    cf = cmod.simplify(c, param_threshold=thr2)
    unchanged("simplify(circuit)")
    ctx.check("simplify", cf.width <= w and op_dist(u, U(cf, w)) <= thr2 * max(0, c.size - cf.size) + TOL,
              f"simplify(threshold={thr2}) changed the unitary beyond the dropped-rotation allowance",
              lambda: dict(base_wit, threshold=thr2, distance=op_dist(u, U(cf, w)), result=gen.from_circuit(cf)))
    # remove_qubits=True variants: unused qubits may disappear from the top only by narrowing the width
    cq = cmod.remove_redundant_gates(c, remove_qubits=True)
    if cq.width:
        ctx.check("remove_redundant_gates", cq.width <= w and same_up_to_phase(u, U(cq, w)),
                  "remove_redundant_gates(remove_qubits=True) changed the unitary", lambda: dict(base_wit, result=gen.from_circuit(cq)))

    # in-place method forms on a copy
    for meth, kw in (("merge_rotations", {}), ("remove_redundant_gates", {}), ("remove_small_rotations", {"param_threshold": 1e-3}),
                     ("simplify", {"param_threshold": 1e-3})):
        c2 = c.copy()
        size0 = c2.size
        getattr(c2, meth)(**kw)
        allow = 1e-3 * max(0, size0 - c2.size) if "param_threshold" in kw else 0
        ctx.check(meth, c2.width <= w and op_dist(u, U(c2, w)) <= allow + TOL, f"Circuit.{meth}() changed the unitary",
                  lambda: dict(base_wit, method=meth, result=gen.from_circuit(c2)))
        unchanged(f"copy().{meth}()")

    # copy, +, *
    cc = c.copy()
    ctx.check("copy_add_mul", cc == c and snap(cc) == before, "copy() is not equal to the original", base_wit)
    n2, gates2 = gen_circuit(pr, ctx.tier)
    d = gen.to_circuit(gates2, n_qubits=n2 if pr.random() < 0.5 else None)
    dsnap = snap(d)
    e = c + d
    we = max(w, d.width)
    if we:
        ctx.check("copy_add_mul", e.width == we and refsim.dist(U(e, we), U(gates2, we) @ U(gates, we)) < TOL,
                  "c1 + c2 is not c2 after c1", lambda: dict(base_wit, other=gates2))
    ctx.check("input_unchanged", snap(d) == dsnap, "+ changed its right operand", lambda: dict(base_wit, other=gates2))
    unchanged("+")
    k = pr.randint(1, 3)
    m = c * k
    ctx.check("copy_add_mul", m.width == w and refsim.dist(U(m, w), np.linalg.matrix_power(u, k)) < TOL, "c * k is not k repetitions",
              lambda: dict(base_wit, k=k))
    m2 = k * c
    ctx.check("copy_add_mul", m2 == m, "k * c differs from c * k", lambda: dict(base_wit, k=k))
    unchanged("*")

    # split (+ stack): parts act on disjoint qubit sets; their product is the original
    parts = c.split(trim_qubits=False)
    unchanged("split")
    prod = np.eye(2 ** w, dtype=complex)
    used = []
    ok = True
    for p_ in parts:
        qs = set()
        for g in p_:
            qs |= set(g.target) | set(g.control or [])
        if any(qs & u_ for u_ in used):
            ok = False
        used.append(qs)
        prod = U(gen.from_circuit(p_), w) @ prod
    ctx.check("split_stack", ok and refsim.dist(prod, u) < TOL, "split(trim_qubits=False): parts overlap or their product is not the original",
              lambda: dict(base_wit, parts=[gen.from_circuit(p_) for p_ in parts]))
    parts_t = c.split()
    st = stack(*parts_t) if parts_t else None
    if st is not None and used:
        # expected relabelling: part j's sorted qubits -> consecutive block j
        mapping, off = {}, 0
        for qs in used:
            for r, q in enumerate(sorted(qs)):
                mapping[q] = off + r
            off += len(qs)
        rel = [(nm, [mapping[q] for q in tg], None if ct is None else [mapping[q] for q in ct], par) for nm, tg, ct, par in gates]
        ctx.check("split_stack", st.width == off and refsim.dist(U(st, off), U(rel, off)) < TOL,
                  "stack(*split(c)) does not act like c on the relabelled qubits",
                  lambda: dict(base_wit, stacked=gen.from_circuit(st), mapping=mapping))
        unchanged("split/stack")
    # stack of independent circuits = tensor product
    if d.width and w + d.width <= 7:
        dg = gen.from_circuit(d)
        sd = stack(c, d)
        usedc = sorted({q for nm, tg, ct, par in gates for q in list(tg) + list(ct or [])})
        usedd = sorted({q for nm, tg, ct, par in dg for q in list(tg) + list(ct or [])})
        mc = {q: r for r, q in enumerate(usedc)}
        md = {q: len(usedc) + r for r, q in enumerate(usedd)}
        rel = [(nm, [mc[q] for q in tg], None if ct is None else [mc[q] for q in ct], par) for nm, tg, ct, par in gates] + \
              [(nm, [md[q] for q in tg], None if ct is None else [md[q] for q in ct], par) for nm, tg, ct, par in dg]
        tot = len(usedc) + len(usedd)
        if tot:
            ctx.check("split_stack", sd.width == tot and refsim.dist(U(sd, tot), U(rel, tot)) < TOL,
                      "stack(c1, c2) is not the tensor product of the trimmed circuits",
                      lambda: dict(base_wit, other=dg, stacked=gen.from_circuit(sd)))
        unchanged("stack")
        ctx.check("input_unchanged", snap(d) == dsnap, "stack changed an operand", lambda: dict(base_wit, other=gates2))

    # trim_qubits (in place, on a copy): relabel used qubits to 0..k-1 in sorted order
    c3 = c.copy()
    r = c3.trim_qubits()
    usedc = sorted({q for nm, tg, ct, par in gates for q in list(tg) + list(ct or [])})
    if usedc:
        mc = {q: rr for rr, q in enumerate(usedc)}
        rel = [(nm, [mc[q] for q in tg], None if ct is None else [mc[q] for q in ct], par) for nm, tg, ct, par in gates]
        ctx.check("trim_qubits", r is c3 and c3.width == len(usedc) and refsim.dist(U(c3, len(usedc)), U(rel, len(usedc))) < TOL,
                  "trim_qubits() does not act like the original on the compacted qubits",
                  lambda: dict(base_wit, result=gen.from_circuit(c3), width=c3.width))
    unchanged("copy().trim_qubits()")


def run_reindex(case, ctx):
    """reindex_qubits on circuits with gaps / large indices: documented as [new index for qubit 0, qubit 1, ...]."""
    rng, pr, s = case_rng(ctx.seed, "C09", "reindex", case["i"])
    k = pr.randint(1, 4)
    pool = list(range(0, 6)) + [7, 8, 9, 12, 16, 17, 24, 31, 32, 33]
    old = sorted(pr.sample(pool if case["i"] % 2 else list(range(6)), k))
    gates_c = gen.random_gates(pr, k, pr.randint(1, 8), max_controls=2, hostile=0.2)
    gates = [(nm, [old[q] for q in tg], None if ct is None else [old[q] for q in ct], par) for nm, tg, ct, par in gates_c]
    used = sorted({q for nm, tg, ct, par in gates for q in list(tg) + list(ct or [])})
    c = gen.to_circuit(gates)
    new = pr.sample(range(len(used) + pr.randint(0, 2)), len(used))
    c.reindex_qubits(new)
    m = dict(zip(used, new))
    rel = [(nm, [m[q] for q in tg], None if ct is None else [m[q] for q in ct], par) for nm, tg, ct, par in gates]
    w = max(new) + 1
    got = gen.from_circuit(c)
    ok = c.width == w and refsim.dist(U(got, w), U(rel, w)) < TOL
    ctx.check("reindex_qubits", ok, "reindex_qubits(new_indices) did not send the i-th used qubit (ascending) to new_indices[i]",
              lambda: {"gates": gates, "used": used, "new_indices": new, "result": got})
    ctx.nontrivial(("reindex", gates, new))


def run_gaptrim(case, ctx):
    """trim_qubits / split / stack on circuits whose used qubits are sparse and large (relabelling must be by rank)."""
    from tangelo.linq import stack
    rng, pr, s = case_rng(ctx.seed, "C09", "gaptrim", case["i"])
    pool = list(range(0, 6)) + [7, 8, 9, 10, 12, 16, 17, 24, 31, 32, 33, 40, 64, 65]
    k = pr.randint(2, 5)
    old = sorted(pr.sample(pool, k))
    gates_c = gen.random_gates(pr, k, pr.randint(2, 9), max_controls=2, hostile=0.2)
    gates = [(nm, [old[q] for q in tg], None if ct is None else [old[q] for q in ct], par) for nm, tg, ct, par in gates_c]
    used = sorted({q for nm, tg, ct, par in gates for q in list(tg) + list(ct or [])})
    if not used:
        return
    rank = {q: r for r, q in enumerate(used)}
    rel = [(nm, [rank[q] for q in tg], None if ct is None else [rank[q] for q in ct], par) for nm, tg, ct, par in gates]
    nu = len(used)
    c = gen.to_circuit(gates)
    before = snap(c)
    ctx.nontrivial(("gaptrim", gates))
    wit = {"gates": gates, "used": used}
    c3 = c.copy()
    c3.trim_qubits()
    ctx.check("trim_qubits", c3.width == nu and refsim.dist(U(c3, nu), U(rel, nu)) < TOL,
              "trim_qubits() does not send the i-th used qubit (ascending) to i", lambda: dict(wit, result=gen.from_circuit(c3)))
    # split with trimming: every part is the restriction of the circuit to one entangled set, relabelled by rank inside the set
    parts = c.split()
    ents = [sorted(e) for e in c.get_entangled_indices()]
    ok = len(parts) == len(ents)
    if ok:
        expect = []
        for e in ents:
            rk = {q: r for r, q in enumerate(e)}
            sub = [(nm, [rk[q] for q in tg], None if ct is None else [rk[q] for q in ct], par) for nm, tg, ct, par in gates
                   if set(list(tg) + list(ct or [])) <= set(e)]
            expect.append((len(e), U(sub, len(e))))
        got = [(p_.width, U(p_, p_.width)) for p_ in parts]
        # parts may come in any order: match greedily
        rem = list(expect)
        for wd, ug in got:
            hit = next((j for j, (we, ue) in enumerate(rem) if we == wd and refsim.dist(ug, ue) < TOL), None)
            if hit is None:
                ok = False
                break
            rem.pop(hit)
    ctx.check("split_stack", ok, "split(): a part is not the circuit restricted to one entangled set with qubits relabelled by rank",
              lambda: dict(wit, parts=[gen.from_circuit(p_) for p_ in parts], entangled=ents))
    # stack with another sparse circuit: tensor product of the two rank-relabelled circuits
    k2 = pr.randint(1, 6 - nu) if nu < 6 else 0
    if k2:
        old2 = sorted(pr.sample(pool, k2))
        g2c = gen.random_gates(pr, k2, pr.randint(1, 5), max_controls=1, hostile=0.2)
        g2 = [(nm, [old2[q] for q in tg], None if ct is None else [old2[q] for q in ct], par) for nm, tg, ct, par in g2c]
        used2 = sorted({q for nm, tg, ct, par in g2 for q in list(tg) + list(ct or [])})
        if used2:
            d = gen.to_circuit(g2)
            dsnap = snap(d)
            sd = stack(c, d)
            r2 = {q: nu + r for r, q in enumerate(used2)}
            rel2 = rel + [(nm, [r2[q] for q in tg], None if ct is None else [r2[q] for q in ct], par) for nm, tg, ct, par in g2]
            tot = nu + len(used2)
            ctx.check("split_stack", sd.width == tot and refsim.dist(U(sd, tot), U(rel2, tot)) < TOL,
                      "stack(c1, c2) is not the tensor product of the rank-relabelled circuits",
                      lambda: dict(wit, other=g2, stacked=gen.from_circuit(sd)))
            ctx.check("input_unchanged", snap(d) == dsnap, "stack changed an operand", lambda: dict(wit, other=g2))
    ctx.check("input_unchanged", snap(c) == before, "copy().trim_qubits() / split / stack changed the source circuit", wit)


def run_eq(case, ctx):
    """Gate.__eq__ => same operation up to a global phase (checked on the enlarged register)."""
    rng, pr, s = case_rng(ctx.seed, "C09", "eq", case["i"])
    for _ in range(40):
        n = pr.randint(1, 4)
        g = None
        while g is None:
            g = gen.random_gate(pr, n, hostile=0.5)
        name, tg, ct, par = g
        if name in gen.PARAM:
            par2 = pr.choice([par, par + 2 * math.pi, par - 2 * math.pi, par + 4 * math.pi, par + 1e-8, par + 1e-6, -par,
                              par + math.pi, gen.angle(pr, 0.5)])
        else:
            par2 = par
        g2 = (name if pr.random() < 0.9 else pr.choice(gen.ALL_NAMES), tg, ct, par2)
        try:
            a, b = gen.to_gate(g), gen.to_gate(g2)
        except ValueError:
            continue
        if a == b:
            d = refsim.dist_up_to_phase(refsim.unitary([g], n), refsim.unitary([g2], n))
            # equality is decided on parameters rounded to 7 decimals: allow that much
            ctx.check("gate_equality", d < 1e-6, "two gates compare equal but implement different operations (beyond a global phase)",
                      lambda: {"g1": g, "g2": g2, "distance": d})
            ctx.check("gate_equality", not (a != b), "== and != disagree", {"g1": g, "g2": g2})
            ctx.nontrivial(("eq", g, g2))
        else:
            ctx.ev("gate_inequality_seen")
        # inverse of a single gate is its adjoint (exact)
        try:
            inv = a.inverse()
        except AttributeError:
            continue
        ui = refsim.unitary([(inv.name, inv.target, inv.control, inv.parameter)], n)
        ctx.check("inverse", refsim.dist(ui, refsim.unitary([g], n).conj().T) < TOL, "Gate.inverse() is not the adjoint", {"gate": g})


def run_clifford(case, ctx):
    from tangelo.linq import Gate
    from tangelo.linq.helpers.circuits.clifford_circuits import decompose_gate_to_cliffords
    kmax = case["kmax"]
    for name in ("RX", "RY", "RZ", "PHASE"):
        for k in range(-kmax, kmax + 1):
            for off in (0.0, 1e-5, -1e-5, 9e-5, -9e-5):
                par = k * math.pi / 2 + off
                g = Gate(name, 0, parameter=par)
                try:
                    dec = decompose_gate_to_cliffords(g)
                except ValueError as e:
                    ctx.check("clifford_decomposition", False,
                              f"{name}({k}*pi/2{off:+g}) is within the documented tolerance (1e-4) of a Clifford angle but was refused",
                              {"gate": [name, par], "k": k, "offset": off, "error": str(e)},
                              mech=None)
                    continue
                dec = dec if isinstance(dec, list) else [dec]
                u = refsim.unitary([(d.name, d.target, d.control, d.parameter) for d in dec], 1)
                d_ = refsim.dist_up_to_phase(refsim.unitary([(name, [0], None, par)], 1), u)
                ctx.check("clifford_decomposition", d_ < 2e-4 and all(x.is_clifford() for x in dec),
                          f"Clifford decomposition of {name}({k}*pi/2{off:+g}) is a different unitary",
                          lambda: {"gate": [name, par], "decomposition": [str(x) for x in dec], "distance": d_})
                ctx.nontrivial(("clifford", name, k, off))
            # non-Clifford angles must be refused
            par = k * math.pi / 2 + 0.3
            try:
                decompose_gate_to_cliffords(Gate(name, 0, parameter=par))
                ctx.check("clifford_decomposition", False, "a non-Clifford angle was decomposed", {"gate": [name, par]})
            except ValueError:
                ctx.ev("clifford_decomposition")


def run_repo_tests(case, ctx):
    """The repository's own tests as an additional workload: every observed call is compared with the reference model (vlib.livemon)."""
    from vlib.harness import repo_tests_case
    repo_tests_case(case, ctx, ['tangelo/linq/tests/test_circuits.py'],
                    ['tangelo/linq/tests/test_circuits.py', 'tangelo/algorithms/projective/tests/test_iqpe.py'],
                    only=('pass_keeps_unitary_',), semantic=('C09',))


def run_trivial_trim(case, ctx):
    """trim_trivial_circuit: the state prepared by the original circuit is (trimmed circuit's state on the kept qubits, in ascending order)
    x (the reported basis state on every removed qubit), up to a global phase; the input circuit is left alone."""
    from props.c14 import COLUMNS, column_gates
    from tangelo.toolboxes.operators.trim_trivial_qubits import trim_trivial_circuit
    rng, pr, s = case_rng(ctx.seed, "C09", "trivial_trim", case["i"])
    n = pr.randint(1, 6)
    k_ent = pr.randint(0, min(3, n))
    ent = sorted(pr.sample(range(n), k_ent)) if k_ent >= 2 else []
    gates, kinds = [], {}
    for q in range(n):
        if q in ent:
            continue
        kinds[q] = pr.choice(COLUMNS)
        gates += column_gates(pr, kinds[q], q)
    if ent:
        sub = gen.random_gates(pr, len(ent), pr.randint(2, 6), names=["H", "CNOT", "RY", "RZ", "CZ", "X", "RX"], max_controls=1, hostile=0.1)
        if not any(len(g[1]) + len(g[2] or []) > 1 for g in sub):
            sub.append(("CNOT", [1], [0], ""))
        for nm, tg, ct, par in sub:
            gates.append((nm, [ent[x] for x in tg], None if ct is None else [ent[x] for x in ct], par))
    circ = gen.to_circuit(gates, n_qubits=n if pr.random() < 0.5 else None)
    w = circ.width
    if w == 0:
        return
    snap = gen.from_circuit(circ)
    tcirc, states = trim_trivial_circuit(circ)
    wit = lambda: {"gates": gates, "n": n, "columns": kinds, "entangled": ent, "trimmed_gates": gen.from_circuit(tcirc), "trim_states": {str(k): v for k, v in states.items()}}
    ctx.check("input_unchanged", gen.from_circuit(circ) == snap and circ.width == w, "trim_trivial_circuit changed its input circuit", wit)
    psi = refsim.run(gates, w).reshape((2,) * w)
    kept = [q for q in range(w) if q not in states]
    ok = all(v in (0, 1) for v in states.values()) and all(0 <= q < w for q in states)
    d = None
    if ok:
        sel = tuple(int(states[q]) if q in states else slice(None) for q in range(w))
        part = psi[sel].reshape(-1)
        ok = abs(np.linalg.norm(part) - 1) < 1e-6     # every removed qubit is in the reported basis state with certainty
        w2 = tcirc.width
        if ok and w2 <= len(kept):
            # qubits kept but idle at the top of the register may have been trimmed off the width; they are in |0>
            tg = gen.from_circuit(tcirc)
            psi2 = refsim.run(tg, len(kept)) if kept else np.ones(1, dtype=complex)
            d = refsim.dist_up_to_phase(part, psi2)
            ok = d < 1e-6
        elif ok:
            ok = False
    ctx.check("trim_trivial_circuit", ok, "original state is not (trimmed circuit on the kept qubits) x (reported basis states of the removed qubits) up to a phase",
              lambda: dict(wit(), dist=d))
    for kd in kinds.values():
        ctx.tab("trivial_column_kind", kd)
    if states and kept:
        ctx.nontrivial(("trivial_trim", gates))


def run_case(case, ctx):
    {"circ": run_circ, "eq": run_eq, "clifford": run_clifford, "reindex": run_reindex, "gaptrim": run_gaptrim, "trivial_trim": run_trivial_trim, "repo_tests": run_repo_tests}[case["sub"]](case, ctx)
