"""C03 - fermion-to-qubit encodings are faithful representations.

Monitor shape: reference-model monitor.  The fermionic side is always evaluated with vlib.fock
(explicit ladder matrices, no qubit mapping); the qubit side with dense Pauli algebra.  Every
observed call of fermion_to_qubit_mapping / combinatorial is checked against: canonical
anticommutation relations (exhaustive over all ordered pairs), adjoint, product, linearity,
constants, and spectrum on the represented space.
"""
import itertools
import math

import numpy as np

from vlib import fock, refsim
from vlib.harness import case_rng

PROPERTY = "C03"
RULE = ("cases: (a) exhaustive CAR checks over all ordered pairs of ladder operators for register sizes 2..6 (thorough 8), odd "
        "sizes included for the interleaved ordering, encodings JW/BK/JKMN, both orderings; (b) seeded random operator pairs "
        "(1-3 terms of 1-4 ladder operators, complex coefficients, operators not touching the highest index, constants) for "
        "product/adjoint/linearity; (c) random Hermitian Hamiltonians (number/spin conserving, restricted and unrestricted, and "
        "generic Hermitian) for spectra; (d) scBK on parity-conserving operators in every (N, spin) parity sector; (e) HCB and "
        "combinatorial on restricted Hamiltonians for every (n_alpha, n_beta). distinct = hash of (encoding, size, ordering, "
        "operator); non-trivial = operator with >= 2 non-commuting terms or an exhaustive pair")
ASSUMPTIONS = ["vlib.fock ladder matrices define the fermionic algebra; vlib.refsim dense Pauli words the qubit algebra",
               "one-configuration sectors of the combinatorial mapping (zero qubits) are outside its domain"]
ANCHORS = [
    ("tangelo/toolboxes/qubit_mappings/mapping_transform.py", "fermion_to_qubit_mapping,make_up_then_down", "dispatch, casting and spin re-ordering"),
    ("tangelo/toolboxes/qubit_mappings/jkmn.py", "_jkmn_dict,jkmn", "ternary-tree Majorana assignment"),
    ("tangelo/toolboxes/qubit_mappings/symmetry_conserving_bravyi_kitaev.py", "symmetry_conserving_bravyi_kitaev,edit_operator_for_spin,prune_unused_indices", "scBK parity factors and qubit removal"),
    ("tangelo/toolboxes/qubit_mappings/combinatorial.py", "one_body_op_on_state,recursive_mapping,combinatorial", "combinatorial basis, phase rule, Pauli decomposition"),
    ("tangelo/toolboxes/qubit_mappings/hcb.py", "hard_core_boson_operator,boson_to_qubit_mapping", "seniority-zero integrals and boson-to-qubit map"),
    ("tangelo/toolboxes/operators/operators.py", "get_coeffs", "coefficient tensors"),
]
REQUIRED = {"encoding_repeatable": 40, "encoded_operator_unchanged": 40, "car": 300, "adjoint": 40, "product": 40, "linearity": 25, "constant": 20, "spectrum_full_space": 40, "jw_matrix": 20, "scbk_spectrum": 9, "scbk_algebra": 20, "hcb_matrix": 4, "combinatorial_spectrum": 8}
BUDGET = {"quick": 240, "thorough": 3000}
TOL = 1e-9
FULL = ["JW", "BK", "JKMN"]


def cases(tier, seed):
    out = []
    sizes = [2, 3, 4, 5, 6] if tier == "quick" else [2, 3, 4, 5, 6, 7, 8]
    for m in FULL:
        for n in sizes:
            for utd in (False, True):
                if utd and n % 2:
                    continue
                out.append({"sub": "car", "mapping": m, "n": n, "utd": utd})
    nh = 64 if tier == "quick" else 900
    for i in range(nh):
        out.append({"sub": "algebra", "i": i})
    for i in range(24 if tier == "quick" else 400):
        out.append({"sub": "spectrum", "i": i})
    for i in range(24 if tier == "quick" else 400):
        out.append({"sub": "scbk", "i": i})
    for i in range(10 if tier == "quick" else 150):
        out.append({"sub": "hcb", "i": i})
    for i in range(10 if tier == "quick" else 150):
        out.append({"sub": "comb", "i": i})
    return out


def fop(terms):
    from openfermion import FermionOperator
    op = FermionOperator()
    for t, c in terms.items():
        op += FermionOperator(tuple(t), c)
    return op


def enc(terms, mapping, n, utd=False, ne=None, spin=0, ctx=None, tangelo_class=False):
    """Encode.  With ctx: the SAME operator object is encoded three times (an encoding is a function of the operator: repeated
    encodings agree term by term, and the encoded operator is left as it was)."""
    from tangelo.toolboxes.qubit_mappings.mapping_transform import fermion_to_qubit_mapping
    op = fop(terms)
    if mapping == "HCB" or tangelo_class:
        # the paired mapping is defined on Tangelo's own FermionOperator class (needs its coefficient tensors)
        from tangelo.toolboxes.operators import FermionOperator as TFermionOperator
        t = TFermionOperator()
        t.terms = dict(op.terms)
        op = t
    r = fermion_to_qubit_mapping(op, mapping, n_spinorbitals=n, n_electrons=ne, up_then_down=utd, spin=spin)
    if ctx is not None:
        before = dict(fop(terms).terms)
        ok_in = dict(op.terms) == before
        diffs = []
        for rep in (2, 3):
            r2 = fermion_to_qubit_mapping(op, mapping, n_spinorbitals=n, n_electrons=ne, up_then_down=utd, spin=spin)
            keys = set(r.terms) | set(r2.terms)
            diffs.append(max([abs(complex(r.terms.get(k, 0)) - complex(r2.terms.get(k, 0))) for k in keys] or [0.0]))
            ok_in = ok_in and dict(op.terms) == before
        ctx.check("encoding_repeatable", max(diffs) < 1e-10,
                  f"{mapping}: encoding the same operator object again gives a different qubit operator",
                  lambda: {"mapping": mapping, "n": n, "up_then_down": utd, "terms": {repr(k): repr(v) for k, v in list(terms.items())[:12]},
                           "max_coefficient_difference_2nd_3rd": diffs, "operator_class": type(op).__name__})
        ctx.check("encoded_operator_unchanged", ok_in, f"{mapping}: the fermionic operator passed in was modified by the encoding",
                  lambda: {"mapping": mapping, "n": n, "up_then_down": utd})
    return r


def qmat(qop, nq):
    return refsim.qubit_operator_matrix({tuple(t): c for t, c in qop.terms.items()}, nq)


def maxq(qop):
    m = -1
    for t in qop.terms:
        for i, _ in t:
            m = max(m, i)
    return m


def mul_terms(a, b):
    out = {}
    for ta, ca in a.items():
        for tb, cb in b.items():
            t = tuple(ta) + tuple(tb)
            out[t] = out.get(t, 0) + ca * cb
    return out


def adj_terms(a):
    return {tuple((p, 1 - d) for p, d in reversed(t)): np.conj(c) for t, c in a.items()}


def lin_terms(alpha, a, beta, b):
    out = {}
    for t, c in a.items():
        out[t] = out.get(t, 0) + alpha * c
    for t, c in b.items():
        out[t] = out.get(t, 0) + beta * c
    return out


def utd_perm(n):
    """interleaved index -> up-then-down index"""
    return {p: (p // 2 + (n // 2) * (p % 2)) for p in range(n)}


def remap(terms, perm):
    return {tuple((perm[p], d) for p, d in t): c for t, c in terms.items()}


def rand_op(pr, n, parity=None, max_idx=None, utd_blocks=None):
    """Random polynomial in ladder operators.  parity='cons' -> every term conserves N parity and spin parity
    (interleaved labels: alpha = even)."""
    hi = n if max_idx is None else max_idx
    terms = {}
    for _ in range(pr.randint(1, 3)):
        for _try in range(100):
            k = pr.randint(1, 4)
            t = tuple((pr.randrange(hi), pr.randint(0, 1)) for _ in range(k))
            if parity == "cons":
                # domain of scBK: the parities of n_alpha and of n_beta are conserved (the two removed qubits store them);
                # its own input check additionally demands (dn_alpha - dn_beta) % 4 == 0
                da = sum(2 * d - 1 for p, d in t if p % 2 == 0)
                db = sum(2 * d - 1 for p, d in t if p % 2 == 1)
                if da % 2 or db % 2 or (da - db) % 4:
                    continue
            break
        else:
            t = ((0, 1), (0, 0))
        c = complex(pr.uniform(-1, 1), pr.uniform(-1, 1) if pr.random() < 0.5 else 0.0)
        terms[t] = terms.get(t, 0) + c
    return terms


def run_car(case, ctx):
    m, n, utd = case["mapping"], case["n"], case["utd"]
    E = {}
    for p in range(n):
        for d in (0, 1):
            E[(p, d)] = qmat(enc({((p, d),): 1.0}, m, n, utd), n)
    I = np.eye(2 ** n)
    for p in range(n):
        ctx.check("adjoint", refsim.dist(E[(p, 1)], E[(p, 0)].conj().T) < TOL, f"{m}: E(a_{p}^dag) != E(a_{p})^dag",
                  {"mapping": m, "n": n, "up_then_down": utd, "p": p})
        for q in range(n):
            ac = E[(p, 0)] @ E[(q, 0)] + E[(q, 0)] @ E[(p, 0)]
            ctx.check("car", refsim.dist(ac, 0 * I) < TOL, f"{m}: {{a_{p}, a_{q}}} != 0",
                      {"mapping": m, "n": n, "up_then_down": utd, "p": p, "q": q})
            ac = E[(p, 0)] @ E[(q, 1)] + E[(q, 1)] @ E[(p, 0)]
            ctx.check("car", refsim.dist(ac, (1.0 if p == q else 0.0) * I) < TOL, f"{m}: {{a_{p}, a_{q}^dag}} != delta",
                      {"mapping": m, "n": n, "up_then_down": utd, "p": p, "q": q})
            ctx.nontrivial(("car", m, n, utd, p, q))
    # product of two single ladder operators is the encoding of their product (exhaustive over pairs)
    for (p, d), (q, e) in itertools.product(E, repeat=2):
        Em = qmat(enc({((p, d), (q, e)): 1.0}, m, n, utd), n)
        ctx.check("product", refsim.dist(Em, E[(p, d)] @ E[(q, e)]) < TOL, f"{m}: E(AB) != E(A)E(B) for single ladder operators",
                  {"mapping": m, "n": n, "up_then_down": utd, "A": [p, d], "B": [q, e]})
    if m == "JW":
        perm = utd_perm(n) if utd else {p: p for p in range(n)}
        for p in range(n):
            ctx.check("jw_matrix", refsim.dist(E[(p, 0)], fock.ladder(perm[p], False, n)) < TOL,
                      "JW image of a_p is not the Fock-space matrix of a_p", {"n": n, "up_then_down": utd, "p": p})
    ctx.sample({"sub": "car", "mapping": m, "n": n, "up_then_down": utd, "pairs": n * n})


def run_algebra(case, ctx):
    rng, pr, s = case_rng(ctx.seed, "C03", "algebra", case["i"])
    m = FULL[case["i"] % 3]
    n = pr.choice([2, 3, 4, 5, 6] if ctx.tier == "quick" else [2, 3, 4, 5, 6, 7, 8])
    utd = (pr.random() < 0.5) and n % 2 == 0
    low = pr.random() < 0.4 and n > 2
    A = rand_op(pr, n, max_idx=(n - 1 if low else None))
    B = rand_op(pr, n, max_idx=(n - 2 if low and n > 3 else None))
    EA, EB = qmat(enc(A, m, n, utd), n), qmat(enc(B, m, n, utd), n)
    wit = {"mapping": m, "n": n, "up_then_down": utd, "A": [[list(map(list, t)), c] for t, c in A.items()],
           "B": [[list(map(list, t)), c] for t, c in B.items()]}
    ctx.check("product", refsim.dist(qmat(enc(mul_terms(A, B), m, n, utd), n), EA @ EB) < 1e-8, f"{m}: E(AB) != E(A)E(B)", wit)
    ctx.check("adjoint", refsim.dist(qmat(enc(adj_terms(A), m, n, utd), n), EA.conj().T) < TOL, f"{m}: E(A^dag) != E(A)^dag", wit)
    al, be = complex(pr.uniform(-2, 2), pr.uniform(-2, 2)), pr.uniform(-2, 2)
    ctx.check("linearity", refsim.dist(qmat(enc(lin_terms(al, A, be, B), m, n, utd), n), al * EA + be * EB) < 1e-8,
              f"{m}: E(aA+bB) != aE(A)+bE(B)", dict(wit, alpha=al, beta=be))
    c = complex(pr.uniform(-2, 2), pr.uniform(-1, 1))
    Ec = enc({(): c}, m, n, utd)
    ctx.check("constant", refsim.dist(qmat(Ec, n), c * np.eye(2 ** n)) < TOL, f"{m}: E(c*1) != c*1", dict(wit, c=c))
    # the image must agree with the Fock-space matrix up to the (fixed) unitary of the encoding: compare spectra of A + A^dag
    Hh = lin_terms(1.0, A, 1.0, adj_terms(A))
    perm = utd_perm(n) if utd else {p: p for p in range(n)}
    ev_f = np.linalg.eigvalsh(fock.fermion_terms_matrix(remap(Hh, perm), n))
    ev_q = np.linalg.eigvalsh(qmat(enc(Hh, m, n, utd), n))
    ctx.check("spectrum_full_space", np.max(np.abs(ev_f - ev_q)) < 1e-8, f"{m}: spectrum of E(A + A^dag) differs from the fermionic spectrum", wit)
    ctx.nontrivial(("alg", m, n, utd, sorted(map(repr, A.items())), sorted(map(repr, B.items()))))
    ctx.sample({"sub": "algebra", "mapping": m, "n": n, "up_then_down": utd, "A_terms": len(A), "B_terms": len(B), "low_index_only": low})


def run_spectrum(case, ctx):
    rng, pr, s = case_rng(ctx.seed, "C03", "spectrum", case["i"])
    n_orb = pr.choice([1, 2, 3] if ctx.tier == "quick" else [1, 2, 3, 4])
    n = 2 * n_orb
    restricted = pr.random() < 0.5
    H = fock.random_hermitian_fermion_terms(rng, n_orb, restricted=restricted)
    ev_f = np.linalg.eigvalsh(fock.fermion_terms_matrix(H, n))
    for m in FULL:
        for utd in (False, True):
            q = enc(H, m, n, utd, ctx=ctx, tangelo_class=(case.get("i", 0) % 2 == 1))
            ev_q = np.linalg.eigvalsh(qmat(q, n))
            ctx.check("spectrum_full_space", np.max(np.abs(ev_f - ev_q)) < 1e-8,
                      f"{m} (up_then_down={utd}): spectrum of the encoded Hamiltonian differs from the fermionic spectrum",
                      {"mapping": m, "n_orb": n_orb, "restricted": restricted, "up_then_down": utd, "seed_case": case["i"],
                       "max_diff": float(np.max(np.abs(ev_f - ev_q)))})
            if m == "JW":
                perm = utd_perm(n) if utd else {p: p for p in range(n)}
                ctx.check("jw_matrix", refsim.dist(qmat(q, n), fock.fermion_terms_matrix(remap(H, perm), n)) < 1e-8,
                          "JW image of a Hamiltonian is not its Fock-space matrix", {"n_orb": n_orb, "up_then_down": utd, "seed_case": case["i"]})
    ctx.nontrivial(("spec", n_orb, restricted, case["i"]))
    ctx.sample({"sub": "spectrum", "n_orb": n_orb, "restricted": restricted, "terms": len(H)})


def sector_parity_indices(n, ne, n_alpha):
    out = []
    for i in range(2 ** n):
        occ = fock.occupations(i, n)
        if sum(occ) % 2 == ne % 2 and sum(occ[0::2]) % 2 == n_alpha % 2:
            out.append(i)
    return out


def run_scbk(case, ctx):
    rng, pr, s = case_rng(ctx.seed, "C03", "scbk", case["i"])
    n_orb = pr.choice([2, 3] if ctx.tier == "quick" else [2, 3, 4])
    n = 2 * n_orb
    ne = pr.randint(0, n)
    spins = [sp for sp in range(-ne, ne + 1) if (ne - sp) % 2 == 0 and (ne + sp) // 2 <= n_orb and (ne - sp) // 2 <= n_orb]
    spin = pr.choice(spins)
    n_alpha = (ne + spin) // 2
    utd = pr.random() < 0.5
    perm = utd_perm(n)
    inv = {v: k for k, v in perm.items()}
    # operators are written in interleaved labels; when up_then_down=True the caller is expected to pass them in that ordering
    # already?  No: fermion_to_qubit_mapping re-orders the operator itself when up_then_down=True, so labels are interleaved.
    wit = {"n": n, "n_electrons": ne, "spin": spin, "up_then_down": utd}
    idx = sector_parity_indices(n, ne, n_alpha)
    kind = case["i"] % 3
    if kind == 0:
        H = fock.random_hermitian_fermion_terms(rng, n_orb, restricted=pr.random() < 0.5)
    else:
        A = rand_op(pr, n, parity="cons")
        H = lin_terms(1.0, A, 1.0, adj_terms(A))
    Hm = fock.fermion_terms_matrix(H, n)
    blk = Hm[np.ix_(idx, idx)]
    off = Hm[np.ix_(idx, [j for j in range(2 ** n) if j not in set(idx)])]
    assert np.max(np.abs(off)) < 1e-12 if off.size else True
    ev_f = np.linalg.eigvalsh(blk)
    try:
        q = enc(H, "SCBK", n, utd, ne=ne, spin=spin, ctx=ctx)
    except ValueError as e:
        if "does not conserve" in str(e):
            ctx.check("scbk_domain", False, "a parity-conserving operator was refused by scBK", dict(wit, error=str(e)))
            return
        raise
    nq = n - 2
    ev_q = np.linalg.eigvalsh(qmat(q, nq)) if nq > 0 else np.array([complex(q.terms.get((), 0)).real])
    ctx.check("scbk_spectrum", len(ev_f) == len(ev_q) and np.max(np.abs(ev_f - ev_q)) < 1e-8,
              "scBK: spectrum differs from the fermionic spectrum in the (N parity, n_alpha parity) sector",
              lambda: dict(wit, kind=kind, fermionic=ev_f, qubit=ev_q))
    # algebra inside the sector
    A, B = rand_op(pr, n, parity="cons"), rand_op(pr, n, parity="cons")
    try:
        EA, EB = qmat(enc(A, "SCBK", n, utd, ne, spin), nq), qmat(enc(B, "SCBK", n, utd, ne, spin), nq)
        EAB = qmat(enc(mul_terms(A, B), "SCBK", n, utd, ne, spin), nq)
        EAd = qmat(enc(adj_terms(A), "SCBK", n, utd, ne, spin), nq)
        al = complex(pr.uniform(-1, 1), pr.uniform(-1, 1))
        ELin = qmat(enc(lin_terms(al, A, 0.7, B), "SCBK", n, utd, ne, spin), nq)
    except ValueError as e:
        if "does not conserve" in str(e):
            ctx.check("scbk_domain", False, "a parity-conserving operator was refused by scBK", dict(wit, error=str(e)))
            return
        raise
    w2 = lambda: dict(wit, A=[[list(map(list, t)), c] for t, c in A.items()], B=[[list(map(list, t)), c] for t, c in B.items()])
    if nq > 0:
        ctx.check("scbk_algebra", refsim.dist(EAB, EA @ EB) < 1e-8, "scBK: E(AB) != E(A)E(B) on parity-conserving operators", w2)
        ctx.check("scbk_algebra", refsim.dist(EAd, EA.conj().T) < 1e-8, "scBK: E(A^dag) != E(A)^dag", w2)
        ctx.check("scbk_algebra", refsim.dist(ELin, al * EA + 0.7 * EB) < 1e-8, "scBK: not linear", w2)
    ctx.nontrivial(("scbk", n, ne, spin, utd, case["i"]))
    ctx.sample({"sub": "scbk", "n": n, "n_electrons": ne, "spin": spin, "up_then_down": utd, "kind": kind})
    ctx.tab("scbk_sector", f"n={n}|Npar={ne % 2}|napar={n_alpha % 2}")


def run_hcb(case, ctx):
    rng, pr, s = case_rng(ctx.seed, "C03", "hcb", case["i"])
    n_orb = pr.choice([1, 2, 3] if ctx.tier == "quick" else [1, 2, 3, 4])
    n = 2 * n_orb
    # integrals with the full 8-fold symmetry of real orbitals, with only the symmetries Hermiticity demands, or complex
    flavour = ["eightfold", "hermitian_only", "complex"][case["i"] % 3]
    H = fock.random_hermitian_fermion_terms(rng, n_orb, restricted=True, eightfold=(flavour == "eightfold"), cplx=(flavour == "complex"))
    Hm = fock.fermion_terms_matrix(H, n)
    assert np.max(np.abs(Hm - Hm.conj().T)) < 1e-10
    # seniority-zero determinants: orbital k doubly occupied or empty; pair index = sum n_k 2^(n_orb-1-k)
    idx = []
    for pi in range(2 ** n_orb):
        occ = []
        for k in range(n_orb):
            b = (pi >> (n_orb - 1 - k)) & 1
            occ += [b, b]
        idx.append(fock.index_of(occ))
    P = Hm[np.ix_(idx, idx)]
    for utd in (False, True):
        q = enc(H, "HCB", n, utd=utd, ctx=ctx)
        got = qmat(q, n_orb)
        ctx.check("hcb_matrix", refsim.dist(got, P) < 1e-8,
                  f"HCB (up_then_down={utd}): qubit operator is not the Hamiltonian projected on the paired-electron space",
                  lambda: {"n_orb": n_orb, "seed_case": case["i"], "integrals": flavour, "up_then_down": utd, "max_diff": refsim.dist(got, P)})
    ctx.tab("hcb_integrals", flavour)
    ctx.nontrivial(("hcb", n_orb, case["i"]))
    ctx.sample({"sub": "hcb", "n_orb": n_orb, "terms": len(H)})


def run_comb(case, ctx):
    from tangelo.toolboxes.qubit_mappings import combinatorial
    rng, pr, s = case_rng(ctx.seed, "C03", "comb", case["i"])
    # register sizes alternate within one process (3 orbitals, then 4, then 2 ...): the encoding of one size must not depend on what was
    # encoded before
    n_orb = [3, 4, 2, 3][case["i"] % 4] if ctx.tier == "quick" else pr.choice([2, 3, 4])
    if n_orb == 4 and ctx.tier == "quick":
        # warm-up encoding on 3 orbitals in the same process, then the 4-orbital one
        Hw = fock.random_hermitian_fermion_terms(rng, 3, restricted=True)
        combinatorial(fop(Hw), 3, (2, 1))
    n = 2 * n_orb
    flavour = ["eightfold", "hermitian_only", "complex"][case["i"] % 3]
    H = fock.random_hermitian_fermion_terms(rng, n_orb, restricted=pr.random() < 0.6, eightfold=(flavour == "eightfold"), cplx=(flavour == "complex"))
    Hm = fock.fermion_terms_matrix(H, n)
    for na in range(0, n_orb + 1):
        for nb in range(0, n_orb + 1):
            dim = math.comb(n_orb, na) * math.comb(n_orb, nb)
            if dim < 2 or (n_orb == 4 and ctx.tier == "quick" and (na, nb) not in ((2, 1), (2, 2), (1, 2), (3, 1))):
                continue
            idx = fock.sector_indices(n, n_alpha=na, n_beta=nb)
            ev_f = np.linalg.eigvalsh(Hm[np.ix_(idx, idx)])
            arg = (na, nb) if (na != nb or pr.random() < 0.5) else na + nb
            q = combinatorial(fop(H), n_orb, arg)
            nq = math.ceil(math.log2(dim))
            M = qmat(q, nq)
            herm = refsim.dist(M, M.conj().T) < 1e-9
            ev_q = np.linalg.eigvalsh((M + M.conj().T) / 2)
            cte = complex(H.get((), 0)).real
            exp = np.sort(np.concatenate([ev_f, np.full(2 ** nq - dim, cte)]))
            ok = maxq(q) < nq and herm and np.max(np.abs(np.sort(ev_q) - exp)) < 1e-9
            ctx.check("combinatorial_spectrum", ok,
                      "combinatorial mapping: spectrum differs from the fermionic spectrum of the (n_alpha, n_beta) sector",
                      lambda: {"n_orb": n_orb, "n_alpha": na, "n_beta": nb, "seed_case": case["i"], "hermitian": herm,
                               "max_diff": float(np.max(np.abs(np.sort(ev_q) - exp)))})
            ctx.nontrivial(("comb", n_orb, na, nb, case["i"]))
    ctx.sample({"sub": "combinatorial", "n_orb": n_orb, "terms": len(H)})


def run_case(case, ctx):
    {"car": run_car, "algebra": run_algebra, "spectrum": run_spectrum, "scbk": run_scbk, "hcb": run_hcb, "comb": run_comb}[case["sub"]](case, ctx)
