"""C04 - qubit Hamiltonians reproduce mean-field and full-CI energies.

Monitor shape: reference-model monitor with three independent numbers per configuration:
(1) Tangelo chain integrals -> frozen folding -> fermionic operator -> JW qubit operator -> sector
    block by bit counting -> eigvalsh;
(2) vlib.chemref (own integral transformation, own frozen-core folding, pyscf.fci without spin
    adaptation);
(3) Tangelo's FCISolver.
Other encodings are tied to JW through their full spectra; the mean-field clause uses the real
reference circuit and the reference simulator; the rotation clause re-runs (1) after replacing
the MO coefficients by a random rotation among the active orbitals.
"""
import warnings

import numpy as np

from vlib import chem, chemref, fock, gen, refsim
from vlib.harness import case_rng

PROPERTY = "C04"
RULE = ("cases = seeded molecule configurations (H2, H3+, H3, H4 chains/rings/clusters, H4+, 3-21G H2, LiH, H2O with frozen orbitals; "
        "charge / spin variants; RHF, ROHF, UHF incl. per-spin frozen lists; frozen = none / int / interior / virtual-only) x encodings "
        "JW/BK/scBK/JKMN x both orderings, plus active-space orbital rotations. distinct = hash(molecule spec); non-trivial = >= 2 "
        "active electrons and >= 1 correlating virtual orbital")
ASSUMPTIONS = ["chemref: own AO->MO transformation and frozen-core folding on PySCF integrals, pyscf.fci direct_spin1/direct_uhf sector minima",
               "FCISolver is spin-adapted for unfrozen singlets: it must return either the sector minimum or the lowest sector eigenvalue "
               "that is a singlet (counted separately in the evidence)",
               "SCF non-convergence skips the case (counted)"]
ANCHORS = [
    ("tangelo/toolboxes/molecular_computation/frozen_orbitals.py", "convert_frozen_orbitals", "partition of orbitals into active/frozen"),
    ("tangelo/toolboxes/molecular_computation/integral_solver_pyscf.py", "get_integrals,compute_uhf_integrals", "integral transformation to the MO basis"),
    ("tangelo/toolboxes/molecular_computation/molecule.py", "get_integrals,_get_active_space_integrals_uhf", "folding frozen occupied orbitals"),
    ("tangelo/toolboxes/molecular_computation/molecule.py", "_get_fermionic_hamiltonian,_get_molecular_hamiltonian_uhf", "assembly of the spin-orbital interaction operator"),
    ("tangelo/toolboxes/molecular_computation/molecule.py", "n_active_ab_electrons,n_active_sos,n_active_mos,active_spin,active_mos", "active electron and spin bookkeeping"),
    ("tangelo/algorithms/classical/fci_solver.py", "FCISolverPySCF", "CAS effective Hamiltonian of the classical reference"),
]
ANCHORS_OPTIONAL = ()
REQUIRED = {"sector_ground_state_equals_reference_fci": 13, "mean_field_energy_of_reference_state": 40, "encodings_share_spectrum": 30, "fci_solver_consistent": 8, "rotation_invariance": 2, "hamiltonian_conserves_sector": 11}
BUDGET = {"quick": 400, "thorough": 3000}


def cases(tier, seed):
    n = 28 if tier == "quick" else 1500
    out = [{"sub": "mol", "i": i} for i in range(n)]
    # directed: odd electron counts of every residue mod 4 (1, 3, 5 active electrons)
    forced = ["H2+", "LiH+_one_active_electron", "H3", "H4+"] + (["H5", "H5"] if tier != "quick" else [])
    out += [{"sub": "mol", "i": 100000 + j, "kind": k} for j, k in enumerate(forced * (1 if tier == "quick" else 10))]
    out += [{"sub": "rotation", "i": i} for i in range(6 if tier == "quick" else 400)]
    return out


def jw_terms(mol, mapping="JW", utd=False):
    from tangelo.toolboxes.qubit_mappings.mapping_transform import fermion_to_qubit_mapping
    q = fermion_to_qubit_mapping(mol.fermionic_hamiltonian, mapping, n_spinorbitals=mol.n_active_sos,
                                 n_electrons=mol.n_active_electrons, up_then_down=utd, spin=mol.active_spin)
    return {tuple(t): c for t, c in q.terms.items()}


def sector_min(mol, nab=None):
    """(sorted lowest eigenvalues of the JW block in the target (n_alpha, n_beta) sector, leak)."""
    terms = jw_terms(mol)
    n = mol.n_active_sos
    na, nb = nab if nab is not None else mol.n_active_ab_electrons
    idx = fock.sector_indices(n, n_alpha=na, n_beta=nb)
    blk, leak = chemref.sector_block(terms, n, idx)
    ev = np.linalg.eigvalsh((blk + blk.conj().T) / 2)
    return ev, leak, blk, idx


def reference_fci(mol, nab=None):
    pymol = mol.mean_field.mol
    na, nb = nab if nab is not None else mol.n_active_ab_electrons
    if not mol.uhf:
        C = np.asarray(mol.mo_coeff)
        e, h, eri = chemref.restricted_active_space(pymol, C, list(mol.frozen_occupied), list(mol.active_mos))
        return chemref.fci_restricted(e, h, eri, (na, nb))
    Ca, Cb = [np.asarray(x) for x in mol.mo_coeff]
    fo = mol.frozen_occupied
    e, hs, eris = chemref.unrestricted_active_space(pymol, Ca, Cb, list(fo[0]), list(fo[1]), list(mol.active_mos[0]), list(mol.active_mos[1]))
    return chemref.fci_unrestricted(e, hs, eris, (na, nb))


def build_or_skip(spec, ctx):
    try:
        with warnings.catch_warnings():
            warnings.simplefilter("ignore")
            mol = chem.build(spec)
        mf = mol.mean_field
        if hasattr(mf, "converged") and not mf.converged:
            ctx.note("scf_skipped")
            return None
        return mol
    except (ValueError, NotImplementedError, TypeError) as e:
        # refused configurations (e.g. freezing a half-filled orbital with ROHF) are not in the property's domain
        ctx.note("configuration_refused")
        return None


def run_mol(case, ctx):
    from tangelo.toolboxes.qubit_mappings.mapping_transform import get_qubit_number
    from tangelo.toolboxes.qubit_mappings.statevector_mapping import get_reference_circuit
    rng, pr, s = case_rng(ctx.seed, "C04", "mol", case["i"])
    spec = chem.mol_spec(pr, rng, kinds=[case["kind"]]) if case.get("kind") else chem.mol_spec(pr, rng)
    mol = build_or_skip(spec, ctx)
    if mol is None:
        return
    n = mol.n_active_sos
    if n > (10 if ctx.tier == "thorough" else 8) or n == 0:
        ctx.note("too_large_skipped")
        return
    na, nb = mol.n_active_ab_electrons
    wit = {"spec": spec, "n_active_sos": n, "n_active_electrons": [na, nb]}
    # active electron numbers counted from the mean-field occupations of the active orbitals (not from the library's formula)
    occ = mol.mean_field.mo_occ
    if mol.uhf:
        na_ref = int(round(sum(float(occ[0][i]) for i in mol.active_mos[0])))
        nb_ref = int(round(sum(float(occ[1][i]) for i in mol.active_mos[1])))
    else:
        na_ref = int(sum(1 for i in mol.active_mos if occ[i] > 0.5))
        nb_ref = int(sum(1 for i in mol.active_mos if occ[i] > 1.5))
    ctx.check("active_electron_count", (na, nb) == (na_ref, nb_ref) and mol.n_active_electrons == na_ref + nb_ref,
              f"n_active_ab_electrons = {(na, nb)}, the occupations of the active orbitals hold {(na_ref, nb_ref)} electrons", dict(wit, counted=[na_ref, nb_ref]))
    na, nb = na_ref, nb_ref
    ctx.tab("n_active_electrons", str(na_ref + nb_ref))
    ev, leak, blk, idx = sector_min(mol, (na_ref, nb_ref))
    ctx.check("hamiltonian_conserves_sector", leak < 1e-9, "the Jordan-Wigner Hamiltonian couples the target (n_alpha, n_beta) sector to other sectors",
              dict(wit, leak=leak))
    e_ref = reference_fci(mol, (na_ref, nb_ref))
    ctx.check("sector_ground_state_equals_reference_fci", abs(ev[0] - e_ref) < 1e-7,
              f"lowest eigenvalue of the qubit Hamiltonian in the target sector ({ev[0]:.9f}) differs from the classical full-CI energy ({e_ref:.9f})",
              dict(wit, qubit=float(ev[0]), reference=float(e_ref)))
    # Tangelo's own FCISolver (restricted references only)
    if not mol.uhf:
        from tangelo.algorithms.classical import FCISolver
        with warnings.catch_warnings():
            warnings.simplefilter("ignore")
            e_t = FCISolver(mol).simulate()
        ok = abs(e_t - ev[0]) < 1e-7
        if not ok:
            # spin-adapted solver: lowest sector eigenvalue whose eigenvector is a singlet
            M = n
            _, _, S2 = fock.number_matrices(M, up_then_down=False)
            S2b = S2[np.ix_(idx, idx)]
            w, v = np.linalg.eigh((blk + blk.conj().T) / 2)
            for k in range(len(w)):
                if abs(w[k] - e_t) < 1e-7:
                    vec = v[:, k]
                    s2 = float(np.real(np.vdot(vec, S2b @ vec)))
                    target = (mol.spin / 2) * (mol.spin / 2 + 1)
                    if abs(s2 - target) < 1e-5 and all(abs(np.real(np.vdot(v[:, j], S2b @ v[:, j])) - target) > 1e-5 for j in range(k) if abs(w[j] - w[k]) > 1e-7):
                        ok = True
                        ctx.note("fci_solver_returned_lowest_state_of_requested_spin")
                    break
        ctx.check("fci_solver_consistent", ok, f"FCISolver energy {e_t:.9f} is neither the sector minimum {ev[0]:.9f} nor the lowest state of the requested spin",
                  dict(wit, fci_solver=float(e_t), sector_minimum=float(ev[0])))
    # mean-field energy as expectation of the encoded reference determinant, all encodings / orderings
    full = {}
    for mapping in ["JW", "BK", "SCBK", "JKMN"]:
        nq = get_qubit_number(mapping, n)
        if nq <= 0:
            continue
        for utd in (False, True):
            if mol.uhf and mapping == "SCBK":
                pass
            terms = jw_terms(mol, mapping, utd)
            with warnings.catch_warnings():
                warnings.simplefilter("ignore")
                rc = get_reference_circuit(n, mol.n_active_electrons, mapping, utd, mol.active_spin)
            psi = refsim.run(gen.from_circuit(rc), nq)
            e_mf = refsim.expectation(terms, psi, nq).real
            ctx.check("mean_field_energy_of_reference_state", abs(e_mf - mol.mf_energy) < 1e-7,
                      f"<reference determinant|H|reference determinant> = {e_mf:.9f} under {mapping} (up_then_down={utd}), mean-field energy {mol.mf_energy:.9f}",
                      dict(wit, mapping=mapping, up_then_down=utd, got=float(e_mf), mf_energy=float(mol.mf_energy)))
            if nq <= 8:
                full[(mapping, utd)] = np.linalg.eigvalsh(refsim.qubit_operator_matrix(terms, nq))
    if ("JW", False) in full:
        base = full[("JW", False)]
        for (mapping, utd), evs in full.items():
            if mapping in ("JW", "BK", "JKMN"):
                ok = len(evs) == len(base) and np.max(np.abs(evs - base)) < 1e-7
                ctx.check("encodings_share_spectrum", ok, f"spectrum under {mapping} (up_then_down={utd}) differs from the Jordan-Wigner spectrum",
                          dict(wit, mapping=mapping, up_then_down=utd))
            else:
                # scBK: the union of sectors with the same parity of N and of n_alpha
                terms = jw_terms(mol)
                ix = [i for i in range(2 ** n) if sum(fock.occupations(i, n)) % 2 == (na + nb) % 2 and sum(fock.occupations(i, n)[0::2]) % 2 == na % 2]
                b2, _ = chemref.sector_block(terms, n, ix)
                e2 = np.linalg.eigvalsh((b2 + b2.conj().T) / 2)
                ok = len(e2) == len(evs) and np.max(np.abs(e2 - evs)) < 1e-7
                ctx.check("encodings_share_spectrum", ok, f"scBK spectrum (up_then_down={utd}) is not the spectrum of the matching parity sectors",
                          dict(wit, mapping=mapping, up_then_down=utd))
    if na + nb >= 2 and n // 2 > max(na, nb):
        ctx.nontrivial(repr(spec))
    ctx.sample({"spec": spec, "n_active_sos": n, "electrons": [na, nb], "e_fci": float(e_ref), "e_mf": float(mol.mf_energy)})
    ctx.tab("reference_kind", ("UHF" if mol.uhf else ("ROHF" if mol.spin else "RHF")) + ("|frozen" if mol.frozen_mos else ""))


def run_rotation(case, ctx):
    from scipy.linalg import expm
    rng, pr, s = case_rng(ctx.seed, "C04", "rot", case["i"])
    spec = chem.mol_spec(pr, rng, kinds=["H2", "H3+", "H4", "H4ring", "H2_321g", "H4+", "H3"])
    mol = build_or_skip(spec, ctx)
    if mol is None or mol.n_active_sos > 8:
        return
    e0 = sector_min(mol)[0][0]

    def rot(C, act):
        k = len(act)
        A = rng.normal(size=(k, k)) * 0.7
        U = expm(A - A.T)
        C2 = np.array(C, copy=True)
        C2[:, act] = C[:, act] @ U
        return C2
    if mol.uhf:
        Ca, Cb = [np.asarray(x) for x in mol.mo_coeff]
        newC = [rot(Ca, list(mol.active_mos[0])), rot(Cb, list(mol.active_mos[1]))]
    else:
        newC = rot(np.asarray(mol.mo_coeff), list(mol.active_mos))
    # route 1: the rotated coefficients handed over as an explicit argument (the molecule keeps its own orbitals)
    from tangelo.toolboxes.qubit_mappings.mapping_transform import fermion_to_qubit_mapping
    with warnings.catch_warnings():
        warnings.simplefilter("ignore")
        hf_rot = mol._get_fermionic_hamiltonian(newC)
    q = fermion_to_qubit_mapping(hf_rot, "JW", n_spinorbitals=mol.n_active_sos, n_electrons=mol.n_active_electrons, up_then_down=False, spin=mol.active_spin)
    na_, nb_ = mol.n_active_ab_electrons
    blk, _leak = chemref.sector_block({tuple(t): c for t, c in q.terms.items()}, mol.n_active_sos, fock.sector_indices(mol.n_active_sos, n_alpha=na_, n_beta=nb_))
    e_arg = float(np.linalg.eigvalsh((blk + blk.conj().T) / 2)[0])
    ctx.check("rotation_invariance", abs(e_arg - e0) < 1e-7,
              f"the Hamiltonian built from explicitly supplied rotated orbitals has another lowest sector eigenvalue ({e0:.9f} -> {e_arg:.9f})",
              {"spec": spec, "before": float(e0), "after": e_arg, "route": "mo_coeff argument"})
    # route 2: the molecule's own coefficients are replaced
    mol.mo_coeff = newC
    e1 = sector_min(mol)[0][0]
    ctx.check("rotation_invariance", abs(e1 - e0) < 1e-7, f"a rotation among the active orbitals changed the lowest sector eigenvalue ({e0:.9f} -> {e1:.9f})",
              {"spec": spec, "before": float(e0), "after": float(e1)})
    e_ref = reference_fci(mol)
    ctx.check("sector_ground_state_equals_reference_fci", abs(e1 - e_ref) < 1e-7, "after an orbital rotation the qubit sector minimum differs from the reference FCI in the rotated orbitals",
              {"spec": spec, "qubit": float(e1), "reference": float(e_ref)})
    ctx.nontrivial(("rot", repr(spec)))
    ctx.sample({"sub": "rotation", "spec": spec, "energy": float(e0)})


def run_case(case, ctx):
    {"mol": run_mol, "rotation": run_rotation}[case["sub"]](case, ctx)
