"""C17 - circuits and operators survive export/import round trips.

Monitor shape: composition monitor.  Every generated circuit over a format's own supported gate
set is exported by the real writer, re-imported by the real reader and compared (Circuit ==, plus
an explicit gate-by-gate and width comparison of our own); gates outside the set must be refused
by the writer.  repr/eval of gates and operator conversion through cirq are composed likewise.
"""
import math

import numpy as np

from vlib import gen
from vlib.harness import case_rng

PROPERTY = "C17"
RULE = ("cases = seeded random circuits over each format's supported gate set (IonQ JSON incl. multi-control, XX, CPHASE, string "
        "parameters; ProjectQ text incl. negative, exponent-format and numpy parameters), idle top qubits with fixed width; every "
        "gate outside the set must raise; repr/eval over all gate kinds and parameter types incl. nested CMEASURE dictionaries; "
        "qubit operators through cirq PauliSum incl. identity and complex coefficients. distinct = hash(format, gate list, width); "
        "non-trivial = >= 2 parameterised or controlled gates / >= 2 operator terms")
ASSUMPTIONS = ["ProjectQ MEASURE is documented as dropped on import and is excluded; formats carry no variational flag, so circuits are "
               "non-variational; ProjectQ text carries numeric parameters only",
               "OpenQASM / qiskit / braket / pennylane / projectq-operator conversions need packages that are not installed"]
ANCHORS = [
    ("tangelo/linq/translator/translate_json_ionq.py", "get_ionq_gates", "IonQ gate-name dictionary"),
    ("tangelo/linq/translator/translate_json_ionq.py", "translate_c_to_json_ionq", "IonQ writer"),
    ("tangelo/linq/translator/translate_json_ionq.py", "translate_c_from_json_ionq", "IonQ parser"),
    ("tangelo/linq/translator/translate_projectq.py", "get_projectq_gates", "ProjectQ gate-name dictionary"),
    ("tangelo/linq/translator/translate_projectq.py", "translate_c_to_projectq", "ProjectQ writer"),
    ("tangelo/linq/translator/translate_projectq.py", "translate_c_from_projectq", "ProjectQ parser"),
    ("tangelo/linq/gate.py", "__repr__", "repr intended to be eval-able"),
    ("tangelo/linq/translator/translate_cirq.py", "translate_op_to_cirq,translate_op_from_cirq", "operator conversion to/from cirq"),
]
REQUIRED = {"ionq_round_trip": 96, "projectq_round_trip": 96, "unsupported_gate_refused": 5, "repr_eval": 179, "operator_round_trip": 51}
BUDGET = {"quick": 200, "thorough": 1800}

IONQ = ["H", "X", "Y", "Z", "S", "T", "RX", "RY", "RZ", "PHASE", "SWAP", "XX", "CRX", "CRY", "CRZ", "CX", "CY", "CZ", "CNOT", "CPHASE"]
PROJECTQ = ["H", "X", "Y", "Z", "S", "T", "RX", "RY", "RZ", "PHASE", "CNOT"]


def cases(tier, seed):
    n = 240 if tier == "quick" else 500000
    out = [{"sub": "ionq", "i": i} for i in range(n)]
    out += [{"sub": "projectq", "i": i} for i in range(n)]
    out += [{"sub": "repr", "i": i} for i in range(16 if tier == "quick" else 20000)]
    out += [{"sub": "operator", "i": i} for i in range(64 if tier == "quick" else 100000)]
    out += [{"sub": "refuse"}]
    return out


def glist(c):
    return [(g.name, list(g.target), None if g.control is None else list(g.control), g.parameter) for g in c]


def same_gates(a, b):
    if len(a) != len(b):
        return False
    for x, y in zip(a, b):
        nx = "CX" if x[0] == "CNOT" else x[0]
        ny = "CX" if y[0] == "CNOT" else y[0]
        if nx != ny or x[1] != y[1] or (x[2] or None) != (y[2] or None):
            return False
        px, py = x[3], y[3]
        if isinstance(px, str) or isinstance(py, str):
            if px != py:
                return False
        elif abs(float(px) - float(py)) > 1e-12 * max(1.0, abs(float(px))):
            return False
    return True


def run_fmt(case, ctx, fmt, names):
    from tangelo.linq import translate_circuit
    rng, pr, s = case_rng(ctx.seed, "C17", fmt, case["i"])
    n = pr.randint(1, 6)
    gates = gen.random_gates(pr, n, pr.randint(0, 12), names=names, max_controls=3 if fmt == "ionq" else 1, hostile=0.3,
                             multi_control_cnot=(fmt == "ionq"))
    out = []
    for nm, tg, ct, par in gates:
        if nm in gen.PARAM:
            r = pr.random()
            if r < 0.15:
                par = pr.choice([1e-7, -3.5e-12, 2.5e+10, -0.0, 0.0, 1.0, 7])
            elif r < 0.25:
                par = np.float64(par)
            elif r < 0.32:
                par = int(round(par))
            elif r < 0.42 and fmt == "ionq":
                par = f"theta_{pr.randint(0, 4)}"
        out.append((nm, tg, ct, par))
    gates = out
    if pr.random() < 0.3 and gates:
        # sparse / multi-digit qubit labels (text formats print and parse the index)
        labels = sorted(pr.sample(list(range(6)) + [9, 10, 11, 12, 19, 20, 21, 99, 100, 101], n))
        gates = [(nm, [labels[q] for q in tg], None if ct is None else [labels[q] for q in ct], par) for nm, tg, ct, par in gates]
        ctx.tab("qubit_labels", "sparse_multi_digit")
    fixed = pr.random() < 0.5
    width_extra = pr.randint(0, 2) if fixed else 0
    w = (gen.width_of(gates) + width_extra) if fixed else None
    if not gates and not fixed:
        fixed, w = True, pr.randint(1, 3)
    c = gen.to_circuit(gates, n_qubits=w)
    exported = translate_circuit(c, fmt)
    back = translate_circuit(exported, "tangelo", source=fmt)
    ok = same_gates(glist(back), glist(c)) and back.width == c.width and (back == c)
    ctx.check(f"{fmt}_round_trip", ok, f"{fmt}: import(export(circuit)) differs from the circuit (gates, qubits, parameters or width)",
              lambda: {"gates": gates, "n_qubits": w, "exported": exported if isinstance(exported, str) else exported,
                       "back": glist(back), "back_width": back.width, "width": c.width})
    if gen.nontrivial_circuit(gates):
        ctx.nontrivial((fmt, gates, w))
    ctx.sample({"format": fmt, "gates": gates, "n_qubits": w})
    for g in gates:
        ctx.tab("gate_x_format", f"{g[0]}|{len(g[2] or [])}|{fmt}")


def run_refuse(case, ctx):
    from tangelo.linq import translate_circuit, Circuit, Gate
    allg = {"H": None, "X": None, "Y": None, "Z": None, "S": None, "T": None, "RX": 0.3, "RY": 0.3, "RZ": 0.3, "PHASE": 0.3,
            "CNOT": None, "CX": None, "CY": None, "CZ": None, "CH": None, "CRX": 0.3, "CRY": 0.3, "CRZ": 0.3, "CPHASE": 0.3,
            "XX": 0.3, "SWAP": None, "CSWAP": None}
    for fmt, names in (("ionq", IONQ), ("projectq", PROJECTQ)):
        for nm, par in allg.items():
            if nm in names and not (fmt == "projectq" and nm == "CNOT"):
                continue
            variants = []
            if nm in ("XX", "SWAP"):
                variants.append(Gate(nm, [0, 1], parameter=par if par else ""))
            elif nm == "CSWAP":
                variants.append(Gate(nm, [0, 1], control=2))
            elif nm.startswith("C"):
                variants.append(Gate(nm, 0, control=1, parameter=par if par else ""))
            else:
                continue
            if fmt == "projectq" and nm == "CNOT":
                # the text format has a two-qubit CX only: a multi-controlled CNOT cannot be expressed
                variants = [Gate("CNOT", 0, control=[1, 2])]
            for g in variants:
                c = Circuit([Gate("H", 0), g])
                try:
                    out = translate_circuit(c, fmt)
                    refused = False
                except (ValueError, KeyError, NotImplementedError):
                    refused = True
                    out = None
                if not refused:
                    # silently altered?  accept only if it imports back to the same circuit
                    try:
                        back = translate_circuit(out, "tangelo", source=fmt)
                        refused = same_gates(glist(back), glist(c)) and back.width == c.width
                    except Exception:
                        refused = False
                ctx.check("unsupported_gate_refused", refused, f"{fmt}: gate {g.name} with {len(g.control or [])} controls is not expressible but was "
                          f"exported without an error", lambda: {"format": fmt, "gate": repr(g), "exported": out})


def run_repr(case, ctx):
    from tangelo.linq import Gate
    from numpy import array, float64, int64  # noqa: names that may appear in a repr
    rng, pr, s = case_rng(ctx.seed, "C17", "repr", case["i"])
    for _ in range(25):
        n = pr.randint(1, 6)
        g = None
        while g is None:
            g = gen.random_gate(pr, n, hostile=0.3)
        nm, tg, ct, par = g
        r = pr.random()
        if nm in gen.PARAM:
            if r < 0.2:
                par = f"p{pr.randint(0, 9)}"
            elif r < 0.35:
                par = int(round(par))
            elif r < 0.5:
                par = pr.choice([1e-9, -2.5e+20, 0.0, -0.0])
        var = pr.random() < 0.3 and nm in gen.PARAM
        gg = Gate(nm, tg, ct, par, is_variational=var)
        try:
            back = eval(repr(gg))
            ok = (back == gg) and back.name == gg.name and back.target == gg.target and back.control == gg.control and \
                back.is_variational == gg.is_variational and (back.parameter == gg.parameter)
        except Exception as e:  # noqa
            ok = False
            back = repr(e)
        ctx.check("repr_eval", ok, "eval(repr(gate)) does not recreate an equal gate", lambda: {"gate": repr(gg), "back": repr(back)})
        ctx.nontrivial(("repr", repr(gg)))
    # MEASURE / CMEASURE with nested dictionaries
    inner = {"0": [Gate("X", 1)], "1": [Gate("CMEASURE", 0, parameter={"0": [Gate("H", 0)], "1": []})]}
    for gg in (Gate("MEASURE", pr.randint(0, 3)), Gate("CMEASURE", 2, parameter=inner), Gate("CMEASURE", 0, parameter={"0": [], "1": [Gate("RZ", 1, parameter=0.25)]})):
        try:
            back = eval(repr(gg))
            ok = repr(back) == repr(gg) and back.name == gg.name and back.target == gg.target and back.parameter == gg.parameter
        except Exception as e:  # noqa
            ok, back = False, repr(e)
        ctx.check("repr_eval", ok, "eval(repr(gate)) fails for a measurement gate", lambda: {"gate": repr(gg), "back": repr(back)})
    # "all gates": names outside the built-in set (user-defined / backend-specific gates) and measurement gates carrying a parameter
    for _ in range(6):
        nm = pr.choice(["POTATO", "CPOTATO", "MEASURE", "U3LIKE", "CU", "SQRTX"])
        q = pr.sample(range(6), 3)
        par = pr.choice([0.75, "alpha", -2, 1e-7, "Z", (0.1, 0.2)])
        gg = Gate(nm, q[:pr.randint(1, 2)], control=(q[2:] if nm.startswith("C") else None), parameter=par, is_variational=pr.random() < 0.3)
        try:
            back = eval(repr(gg))
            ok = back.name == gg.name and back.target == gg.target and back.control == gg.control and back.parameter == gg.parameter \
                and back.is_variational == gg.is_variational
        except Exception as e:  # noqa
            ok, back = False, repr(e)
        ctx.check("repr_eval", ok, "eval(repr(gate)) does not recreate a gate outside the built-in name set", lambda: {"gate": repr(gg), "fields": [gg.name, gg.target, gg.control, gg.parameter], "back": repr(back)})


def run_operator(case, ctx):
    from tangelo.linq import translate_operator
    rng, pr, s = case_rng(ctx.seed, "C17", "operator", case["i"])
    n = pr.randint(1, 6)
    terms = gen.random_qubit_terms(pr, n, pr.randint(1, 10), complex_coeffs=pr.random() < 0.5)
    if case["i"] % 8 == 0:
        terms = {(): pr.uniform(-2, 2)}
    op = gen.to_qubit_operator(terms)
    t0 = {k: v for k, v in op.terms.items()}
    mid = translate_operator(op, "tangelo", "cirq")
    back = translate_operator(mid, "cirq", "tangelo")
    tb = {k: v for k, v in back.terms.items() if abs(v) > 1e-14}
    ok = set(tb) == set(k for k, v in t0.items() if abs(v) > 1e-14) and all(abs(tb[k] - t0[k]) < 1e-12 for k in tb)
    ctx.check("operator_round_trip", ok, "qubit operator -> cirq PauliSum -> qubit operator differs from the original",
              lambda: {"terms": [[list(map(list, t)), c] for t, c in t0.items()], "back": [[list(map(list, t)), c] for t, c in tb.items()]})
    ctx.check("operator_round_trip", {k: v for k, v in op.terms.items()} == t0, "operator conversion modified its input", {})
    if len(t0) >= 2:
        ctx.nontrivial(("op", sorted(map(repr, t0.items()))))


def run_case(case, ctx):
    sub = case["sub"]
    if sub == "ionq":
        run_fmt(case, ctx, "ionq", IONQ)
    elif sub == "projectq":
        run_fmt(case, ctx, "projectq", PROJECTQ)
    elif sub == "repr":
        run_repr(case, ctx)
    elif sub == "operator":
        run_operator(case, ctx)
    else:
        run_refuse(case, ctx)
