"""C10 - mid-circuit measurement and classical control follow the Born rule.

Monitor shape: reference interpreter (40 lines over vlib.refsim) that consumes an outcome list and
yields the branch state, branch probability and the gates applied; every observed
Backend.simulate call (conditioned, unconditioned/density-matrix, sampled, single shot) on a
generated circuit is compared with it; conservation checks over the recorded histograms.
"""
import itertools
import math

import numpy as np

from vlib import gen, refsim
from vlib.harness import case_rng

PROPERTY = "C10"
RULE = ("cases = seeded circuits (1-4 qubits) with 1-4 MEASURE / CMEASURE gates (dictionary, function and ClassicalControl-class "
        "control, nested CMEASURE, repeat-until-success), repeated/idle measured qubits, first/last positions, optional initial "
        "statevector; ALL outcome strings of every circuit are requested; n_shots in {None, 1, 2000}; save_mid_circuit_meas on/off. "
        "distinct = hash(circuit description, initial flag); non-trivial = >= 2 measurements or a classically controlled branch")
ASSUMPTIONS = ["reference interpreter: gates returned by a classical control are executed immediately after that measurement",
               "sampled paths: support inclusion exact, chi-square rejection at p<1e-9, RNG seeded per case",
               "only the cirq backend implements mid-circuit measurement here (sympy refuses it)"]
ANCHORS = [
    ("tangelo/linq/target/backend.py", "collapse_statevector_to_desired_measurement,perform_measurement", "statevector projection / perform_measurement"),
    ("tangelo/linq/target/backend.py", "simulate", "dispatch on desired results / saved measurements / shots"),
    ("tangelo/linq/target/target_cirq.py", "simulate_circuit", "piecewise simulation with classical control"),
    ("tangelo/linq/target/target_cirq.py", "simulate_circuit", "desired_meas_result piecewise simulation"),
    ("tangelo/linq/circuit.py", "get_unitary_circuit_pieces,generate_applied_gates", "splitting at measurement gates / replay of applied gates"),
    ("tangelo/toolboxes/post_processing/post_selection.py", "split_frequency_dict,split_frequency_dict_for_last_n_digits", "splitting joint frequencies"),
]
REQUIRED = {"live_observations_total": 1, "branch_state": 180, "branch_distribution": 180, "branch_probability": 180, "probabilities_sum_to_one": 50, "mixture_equals_density_matrix": 22, "applied_gates": 50, "sampled_all_frequencies": 20, "marginals": 40, "single_shot_state": 20, "generate_applied_gates": 30}
BUDGET = {"quick": 240, "thorough": 2400}
TOL = 1e-9


def cases(tier, seed):
    n = 160 if tier == "quick" else 4000
    return [{"sub": "circ", "i": i} for i in range(n)] + [{"sub": "repo_tests", "tier": tier}] + [{"sub": "wide", "i": i} for i in range(12 if tier == "quick" else 300)]


# ---------------------------------------------------------------------------------------------
# description -> tangelo objects.  A gate description is a tuple (name, targets, controls, parameter) where for
# CMEASURE the parameter is {"0": [descriptions], "1": [descriptions]} (dictionary control) or the string "ctrl"
# (function / class control given separately as a table).

def to_tangelo_gate(d):
    from tangelo.linq import Gate
    name, tg, ct, par = d
    if name == "CMEASURE" and isinstance(par, dict):
        par = {k: [to_tangelo_gate(x) for x in v] for k, v in par.items()}
    return Gate(name, list(tg), None if ct is None else list(ct), par)


def make_control(kind, table, max_calls):
    """kind: 'function' | 'class'.  table: {'0': [...], '1': [...]}; a gate ('CMEASURE', [q], None, 'ctrl') in the table
    recurses (repeat-until-success); the class stops recursing after max_calls calls in one shot."""
    from tangelo.linq.circuit import ClassicalControl

    def strip(gs, allow):
        return [to_tangelo_gate(g) for g in gs if allow or g[0] != "CMEASURE"]

    if kind == "function":
        def fn(measure):
            return strip(table[measure], True)
        return fn

    class Ctl(ClassicalControl):
        def __init__(self):
            self.calls = 0
            self.finalized = 0

        def return_gates(self, measurement):
            self.calls += 1
            return strip(table[measurement], self.calls < max_calls)

        def finalize(self):
            self.calls = 0
            self.finalized += 1

    return Ctl()


class RefControl:
    """Reference twin of the control object (same table, same call counting)."""

    def __init__(self, kind, table, max_calls):
        self.kind, self.table, self.max_calls, self.calls = kind, table, max_calls, 0

    def gates(self, b):
        self.calls += 1
        allow = True if self.kind == "function" else self.calls < self.max_calls
        return [g for g in self.table[b] if allow or g[0] != "CMEASURE"]


def interpret(desc, n, outcomes, init, ctrl):
    """Follow one branch. Returns (state|None, prob, applied gate descriptions, consumed outcome string, complete?)."""
    s = refsim.zero_state(n).reshape(-1) if init is None else np.asarray(init, dtype=complex).reshape(-1)
    prob = 1.0
    pending = list(desc)
    applied = []
    used = ""
    k = 0
    rc = None if ctrl is None else RefControl(*ctrl)
    while pending:
        g = pending.pop(0)
        name, tg, ct, par = g
        if name in ("MEASURE", "CMEASURE"):
            if k >= len(outcomes):
                return s, prob, applied, used, False
            b = outcomes[k]
            k += 1
            used += b
            s2, p = refsim.project(s, n, tg[0], int(b))
            prob *= p
            applied.append((name, list(tg), None, b))
            if s2 is None:
                return None, 0.0, applied, used, True
            s = s2
            if name == "CMEASURE":
                new = par[b] if isinstance(par, dict) else rc.gates(b)
                pending = list(new) + pending
        else:
            s = refsim.apply_gate(s.reshape((2,) * n), n, g).reshape(-1)
            applied.append((name, list(tg), None if ct is None else list(ct), par))
    return s, prob, applied, used, True


def enumerate_branches(desc, n, init, ctrl, max_meas=8):
    """All complete outcome strings with their (state, prob, applied)."""
    out = {}
    stack = [""]
    while stack:
        pre = stack.pop()
        s, p, applied, used, complete = interpret(desc, n, pre, init, ctrl)
        if complete:
            out[used] = (s, p, applied)
        elif len(pre) < max_meas:
            stack.append(pre + "0")
            stack.append(pre + "1")
        else:
            out[pre] = None  # unbounded recursion cut off
    return out


def gen_desc(pr, n, tier):
    """Circuit description with measurements."""
    style = pr.choice(["measure", "measure", "dict", "dict_nested", "function", "class_rus"])
    ng = pr.randint(1, 8)
    names = gen.ONE_Q_FIXED + gen.ONE_Q_ROT + ["CNOT", "CZ", "CRY", "SWAP", "XX", "CH"]
    base = gen.random_gates(pr, n, ng, names=names, max_controls=1, hostile=0.15)
    base = [(a, b, c, d) for a, b, c, d in base]
    ctrl = None

    def small(k=2):
        return gen.random_gates(pr, n, pr.randint(0, k), names=names, max_controls=1, hostile=0.1)

    n_meas = pr.randint(1, 3 if tier == "quick" else 4)
    desc = list(base)
    for j in range(n_meas):
        q = pr.randrange(n)
        pos = pr.choice([0, len(desc), pr.randint(0, len(desc))])
        if style == "measure" or (style != "measure" and j > 0 and pr.random() < 0.5):
            desc.insert(pos, ("MEASURE", [q], None, ""))
        elif style == "dict":
            desc.insert(pos, ("CMEASURE", [q], None, {"0": small(), "1": small()}))
        elif style == "dict_nested":
            inner = ("CMEASURE", [pr.randrange(n)], None, {"0": small(2), "1": small(2)})
            # nested measurement in the middle of the selected gate list: gates of the inner control must run before the trailing gates
            desc.insert(pos, ("CMEASURE", [q], None, {"0": small(1) + [inner] + small(2), "1": small(1) + [("MEASURE", [pr.randrange(n)], None, "")] + small(2)}))
        else:
            desc.insert(pos, ("CMEASURE", [q], None, "ctrl"))
    if style == "function":
        ctrl = ("function", {"0": small(), "1": small()}, 99)
    elif style == "class_rus":
        # repeat until success: on outcome 1 apply gates and measure the same qubit again (bounded by max_calls)
        q0 = [d for d in desc if d[0] == "CMEASURE"]
        qq = q0[0][1][0] if q0 else 0
        ctrl = ("class", {"0": small(1), "1": small(1) + [("H", [qq], None, ""), ("CMEASURE", [qq], None, "ctrl")]}, pr.randint(2, 3))
    if not any(d[0] == "CMEASURE" and d[3] == "ctrl" for d in desc):
        ctrl = None
    return style, desc, ctrl


def build(desc, n, ctrl):
    from tangelo.linq import Circuit
    co = None if ctrl is None else make_control(*ctrl)
    return Circuit([to_tangelo_gate(d) for d in desc], n_qubits=n, cmeasure_control=co)


def gate_desc_list(gs):
    out = []
    for g in gs:
        par = g.parameter
        out.append((g.name, list(g.target), None if g.control is None else list(g.control), par if not isinstance(par, dict) else "dict"))
    return out


def same_applied(got, exp):
    if len(got) != len(exp):
        return False
    for a, b in zip(got, exp):
        if a[0] != b[0] or list(a[1]) != list(b[1]) or (a[2] or None) != (b[2] or None):
            return False
        if a[0] in ("MEASURE", "CMEASURE"):
            if str(a[3]) != str(b[3]):
                return False
        elif a[3] != b[3] and not (isinstance(a[3], float) and isinstance(b[3], float) and abs(a[3] - b[3]) < 1e-12):
            return False
    return True


def run_circ(case, ctx):
    from tangelo.linq import get_backend
    from tangelo.linq.circuit import generate_applied_gates
    from props.c01 import chi2_ok
    rng, pr, s = case_rng(ctx.seed, "C10", "circ", case["i"])
    n = pr.randint(1, 3 if ctx.tier == "quick" else 4)
    style, desc, ctrl = gen_desc(pr, n, ctx.tier)
    init = gen.random_state(rng, n) if pr.random() < 0.4 else None
    has_c = any(d[0] == "CMEASURE" for d in desc)
    branches = enumerate_branches(desc, n, init, ctrl)
    if any(v is None for v in branches.values()):
        ctx.note("unbounded_branch_cut")
        return
    wit = {"style": style, "n_qubits": n, "desc": desc, "control": ctrl, "initial": init}
    ctx.nontrivial((desc, ctrl, init is not None))
    ctx.sample({"style": style, "n_qubits": n, "desc": desc, "control": ctrl, "with_initial": init is not None})
    ctx.tab("style", style)

    be = get_backend("cirq")
    total = 0.0
    mix = np.zeros(2 ** n)
    joint = {}
    circ = build(desc, n, ctrl)
    for b, (st, p, applied) in sorted(branches.items()):
        total += p
        if st is not None:
            pr_ = refsim.probabilities(st)
            mix += p * pr_
            for i, x in enumerate(pr_):
                if p * x > 1e-14:
                    joint[b + refsim.bitstring(i, n)] = joint.get(b + refsim.bitstring(i, n), 0) + p * x
        if p < 1e-9:
            # zero-probability branch: the simulator must refuse it (it cannot return a normalised state)
            try:
                be.simulate(build(desc, n, ctrl), desired_meas_result=b, return_statevector=True, initial_statevector=init)
                ctx.check("zero_probability_branch_refused", p > 1e-28, f"zero-probability outcome {b} returned a state", dict(wit, outcome=b))
            except ValueError:
                ctx.ev("zero_probability_branch_refused")
            continue
        freqs, sv = be.simulate(circ, desired_meas_result=b, return_statevector=True, initial_statevector=init)
        sv = np.asarray(sv).reshape(-1)
        ctx.check("branch_state", refsim.dist(sv, st) < 1e-8, f"state conditioned on outcomes {b} is not the normalised branch state",
                  lambda: dict(wit, outcome=b, got=sv, expected=st))
        ef = refsim.freq_dict(st, n)
        ctx.check("branch_distribution", set(freqs) == set(ef) and all(abs(freqs[k] - ef[k]) < 1e-8 for k in ef),
                  f"final distribution conditioned on {b} differs from the branch distribution",
                  lambda: dict(wit, outcome=b, got=freqs, expected=ef))
        sp = circ.success_probabilities.get(b)
        ctx.check("branch_probability", sp is not None and abs(sp - p) < 1e-9, f"success_probabilities[{b}] is not the branch probability",
                  lambda: dict(wit, outcome=b, got=sp, expected=p))
        if has_c:
            got = gate_desc_list(circ.applied_gates)
            ctx.check("applied_gates", same_applied(got, applied), f"applied_gates for outcomes {b} differ from the gates the outcomes select",
                      lambda: dict(wit, outcome=b, got=got, expected=applied))
            ga = generate_applied_gates(build(desc, n, ctrl), desired_meas_result=b)
            ctx.check("generate_applied_gates", same_applied(gate_desc_list(ga), applied),
                      f"generate_applied_gates for outcomes {b} differs from the gates the outcomes select",
                      lambda: dict(wit, outcome=b, got=gate_desc_list(ga), expected=applied))
        # mid-circuit / final split of the recorded joint frequencies
        af = getattr(be, "all_frequencies", None)
        if af is not None:
            okm = all(k.startswith(b) for k in af) and abs(sum(af.values()) - 1) < 1e-8
            ctx.check("marginals", okm and abs(sum(freqs.values()) - 1) < 1e-8,
                      "all_frequencies of a conditioned run are not keyed by the requested outcomes / not normalised",
                      lambda: dict(wit, outcome=b, all_frequencies=af))
    ctx.check("probabilities_sum_to_one", abs(total - 1) < 1e-9, "branch probabilities do not sum to one", dict(wit, total=total))
    sp_all = circ.success_probabilities
    tot_real = sum(v for k, v in sp_all.items() if k in branches)
    nz = sum(p for b, (st, p, a) in branches.items() if p >= 1e-9)
    ctx.check("probabilities_sum_to_one", abs(tot_real - nz) < 1e-8, "recorded success_probabilities do not sum to one over all outcome strings",
              lambda: dict(wit, recorded=sp_all))

    # the same Circuit object simulated again from another initial state: recorded probabilities are those of THIS run
    init2 = gen.random_state(rng, n)
    branches2 = enumerate_branches(desc, n, init2, ctrl)
    if not any(v is None for v in branches2.values()):
        for b, (st2, p2, _a2) in sorted(branches2.items()):
            if p2 < 1e-6:
                continue
            freqs2, sv2 = be.simulate(circ, desired_meas_result=b, return_statevector=True, initial_statevector=init2)
            sp2 = circ.success_probabilities.get(b)
            ctx.check("branch_probability", sp2 is not None and abs(sp2 - p2) < 1e-9 and refsim.dist(np.asarray(sv2).reshape(-1), st2) < 1e-8,
                      f"after re-simulating the same circuit object from another initial state, success_probabilities[{b}] / the state are not those of this run",
                      lambda: dict(wit, outcome=b, second_initial=init2, got=sp2, expected=p2))

    # unconditioned path (density matrix) for MEASURE-only circuits: sum_b p_b dist_b == diag(rho)
    if not has_c:
        bs = get_backend("cirq", n_shots=50)
        np.random.seed(s)
        bs.simulate(build(desc, n, ctrl), initial_statevector=init)
        rho = np.asarray(bs._current_state)
        ok = rho.shape == (2 ** n, 2 ** n) and np.max(np.abs(np.real(np.diag(rho)) - mix)) < 1e-7
        ctx.check("mixture_equals_density_matrix", ok, "probability-weighted branch distributions differ from the unconditioned distribution",
                  lambda: dict(wit, diag_rho=np.real(np.diag(rho)) if rho.ndim == 2 else None, mixture=mix))

    # sampled, all frequencies saved
    if case["i"] % 2 == 0:
        n_shots = 2000 if not has_c else 300
        bs = get_backend("cirq", n_shots=n_shots)
        np.random.seed(s + 1)
        c2 = build(desc, n, ctrl)
        freqs, _ = bs.simulate(c2, initial_statevector=init, save_mid_circuit_meas=True)
        af = bs.all_frequencies
        supp = all(joint.get(k, 0) > 1e-12 for k in af)
        norm = abs(sum(af.values()) - 1) < 1e-9
        okc, info = chi2_ok(af, joint, n_shots)
        ctx.check("sampled_all_frequencies", supp and norm and okc,
                  f"sampled joint outcome frequencies are not draws from the branch probabilities (support={supp} norm={norm} {info})",
                  lambda: dict(wit, n_shots=n_shots, got=af, expected=joint))
        # marginals
        fin, mid = {}, {}
        for k, v in af.items():
            fin[k[-n:]] = fin.get(k[-n:], 0) + v
            mid[k[:-n]] = mid.get(k[:-n], 0) + v
        mf = bs.mid_circuit_meas_freqs
        okm = set(fin) == set(freqs) and all(abs(fin[k] - freqs[k]) < 1e-9 for k in fin) and \
            set(mid) == set(mf) and all(abs(mid[k] - mf[k]) < 1e-9 for k in mid)
        ctx.check("marginals", okm, "mid_circuit_meas_freqs / final frequencies are not the marginals of all_frequencies",
                  lambda: dict(wit, all_frequencies=af, mid=mf, final=freqs))
        if has_c:
            ag = gate_desc_list(c2.applied_gates)
            # the last shot's applied gates must correspond to some complete branch
            okb = any(same_applied(ag, a) for b, (st, p, a) in branches.items() if p > 1e-12)
            ctx.check("applied_gates", okb, "applied_gates after a sampled run match no possible branch", lambda: dict(wit, got=ag))

    # single shot + statevector
    if case["i"] % 2 == 1:
        b1 = get_backend("cirq", n_shots=1)
        np.random.seed(s + 2)
        c3 = build(desc, n, ctrl)
        freqs, sv = b1.simulate(c3, initial_statevector=init, save_mid_circuit_meas=True, return_statevector=True)
        af = b1.all_frequencies
        key = next(iter(af))
        b = key[:-n]
        ok = len(af) == 1 and b in branches and branches[b][1] > 1e-12
        if ok:
            st = branches[b][0]
            sv = np.asarray(sv).reshape(-1)
            ok = refsim.dist(sv, st) < 1e-8 and abs(refsim.probabilities(st)[int(key[-n:], 2)]) > 1e-12
        ctx.check("single_shot_state", ok, "single-shot run returned a state that is not the branch state of its recorded outcomes",
                  lambda: dict(wit, all_frequencies=af, got=sv))


def run_wide(case, ctx):
    """Plain MEASURE gates on 8-10 qubits with basis-state (deterministic) outcomes, finite shots, saved mid-circuit results: every
    recorded bit string is known exactly, position by position (more than ten recorded bits)."""
    from tangelo.linq import get_backend, Circuit, Gate
    rng, pr, s = case_rng(ctx.seed, "C10", "wide", case["i"])
    n = pr.randint(8, 10)
    bits = [0] * n
    gates = []
    meas = []
    n_meas = pr.randint(2, 4)
    for step in range(n_meas):
        for q in pr.sample(range(n), pr.randint(1, 4)):
            gates.append(Gate("X", q))
            bits[q] ^= 1
        if pr.random() < 0.5:
            a, b_ = pr.sample(range(n), 2)
            gates.append(Gate("CNOT", b_, control=a))
            bits[b_] ^= bits[a]
        q = pr.randrange(n)
        gates.append(Gate("MEASURE", q))
        meas.append(str(bits[q]))
    for q in pr.sample(range(n), pr.randint(0, 3)):
        gates.append(Gate("X", q))
        bits[q] ^= 1
    circ = Circuit(gates, n_qubits=n)
    final = "".join(map(str, bits))
    mid = "".join(meas)
    wit = {"n_qubits": n, "gates": [(g.name, g.target, g.control) for g in gates], "expected_mid": mid, "expected_final": final}
    for mode in ("save", "desired"):
        be = get_backend("cirq", n_shots=pr.choice([1, 7, 200]))
        np.random.seed(s)
        if mode == "save":
            freqs, _ = be.simulate(circ, save_mid_circuit_meas=True)
        else:
            freqs, _ = be.simulate(circ, desired_meas_result=mid)
        af, mf = be.all_frequencies, be.mid_circuit_meas_freqs
        ok = set(freqs) == {final} and abs(freqs[final] - 1) < 1e-9 and set(af) == {mid + final} and set(mf) == {mid}
        ctx.check("sampled_all_frequencies", ok,
                  f"deterministic circuit with {n_meas} + {n} recorded bits ({mode}): recorded bit strings are not the known outcomes",
                  lambda: dict(wit, mode=mode, final=freqs, all_frequencies=af, mid=mf))
    ctx.nontrivial(("wide", n, n_meas, case["i"]))
    ctx.tab("recorded_bits", str(n + n_meas))


def run_repo_tests(case, ctx):
    """The repository's own tests that post-select on mid-circuit outcomes, as an additional workload for the branch monitor (vlib.livemon)."""
    from vlib.harness import repo_tests_case
    repo_tests_case(case, ctx, ["tangelo/linq/tests/test_simulator.py", "-k", "meas or desired or mid"],
                    ["tangelo/linq/tests/test_simulator.py", "tangelo/algorithms/variational/tests/test_vqe_solver.py",
                     "tangelo/algorithms/variational/tests/test_sa_vqe_solver.py", "tangelo/algorithms/variational/tests/test_adapt_vqe_solver.py",
                     "-k", "meas or desired or mid or projective"],
                    only=("conditioned_exact_branch",), semantic=("C10",))


def run_case(case, ctx):
    if case["sub"] == "repo_tests":
        return run_repo_tests(case, ctx)
    if case["sub"] == "wide":
        return run_wide(case, ctx)
    run_circ(case, ctx)
