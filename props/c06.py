"""C06 - Pauli-exponential and time-evolution circuits implement exp(-itH).

Monitor shape: reference-model monitor with scipy.linalg.expm on dense Pauli matrices; for
non-commuting operators the rigorous first/second-order product-formula commutator bounds
(Childs et al. 2021) are evaluated with the term order the implementation used.
"""
import itertools
import math

import numpy as np

from vlib import fock, gen, refsim
from vlib.harness import case_rng

PROPERTY = "C06"
RULE = ("cases: exhaustive over all non-identity Pauli words on 3 qubits (thorough: 4) x coefficient classes {+-0.3, 0, 1e-11, +-7.1, "
        "+-2pi, -4pi-0.2, pi/2} x control in {none, int, [k], [k,l], lists containing qubit 0}; seeded random commuting / "
        "non-commuting qubit operators and Hermitian fermionic operators (all encodings) with scalar and per-term time "
        "dictionaries, 1-4 steps, orders 1, 2, 4; TrotterSuzukiUnitary.build_circuit in both step methods. distinct = hash(word, "
        "coefficient, control) / hash(operator, time, steps, order, control); non-trivial = word on >= 2 qubits / operator with >= "
        "2 non-commuting terms")
ASSUMPTIONS = ["scipy.linalg.expm on dense matrices (<= 6 qubits incl. controls) is the oracle",
               "order-1 bound t^2/(2r) sum_{j<k} ||[H_k,H_j]||, order-2 bound t^3/(12 r^2) sum_j ||[S_j,[S_j,H_j]]|| + t^3/(24 r^2) sum_j "
               "||[H_j,[H_j,S_j]]|| with S_j = sum_{k>j} H_k, in the implementation's own term order, plus 1e-10 per skipped tiny term",
               "order 4 is only checked for convergence (error shrinks at least 8x when the step is halved, or is below 1e-9)"]
ANCHORS = [
    ("tangelo/toolboxes/ansatz_generator/ansatz_utils.py", "pauli_op_to_gate,exp_pauliword_to_gates", "basis change, CNOT ladder, RZ/CRZ angle"),
    ("tangelo/toolboxes/ansatz_generator/ansatz_utils.py", "get_exponentiated_qubit_operator_circuit", "term ordering, identity-term phase / controlled phase"),
    ("tangelo/toolboxes/ansatz_generator/ansatz_utils.py", "recursive_trotter_suzuki_decomposition", "recursive Trotter-Suzuki coefficients"),
    ("tangelo/toolboxes/ansatz_generator/ansatz_utils.py", "trotterize", "time/step scaling, fermionic input mapping, phase**n_steps"),
    ("tangelo/toolboxes/unitary_generator/trotter_suzuki.py", "build_circuit", "TrotterSuzukiUnitary.build_circuit"),
]
REQUIRED = {"pauli_word_exponential": 1000, "commuting_exact": 33, "trotter_bound_order1": 9, "trotter_bound_order2": 12, "higher_order_convergence": 3, "fermionic_evolution": 25, "controlled_evolution": 35, "trotter_suzuki_unitary": 9}
BUDGET = {"quick": 240, "thorough": 2400}
TOL = 1e-9
COEFS = [0.3, -0.3, 0.0, 1e-11, 7.1, -7.1, 2 * math.pi, -2 * math.pi, -4 * math.pi - 0.2, math.pi / 2]


def cases(tier, seed):
    out = []
    nw = 3 if tier == "quick" else 4
    words = [w for w in itertools.product("IXYZ", repeat=nw) if any(c != "I" for c in w)]
    chunk = 9 if tier == "quick" else 15
    for k in range(0, len(words), chunk):
        out.append({"sub": "words", "nw": nw, "lo": k, "hi": min(len(words), k + chunk)})
    n = 144 if tier == "quick" else 60000
    out += [{"sub": "evolve", "i": i} for i in range(n)]
    out += [{"sub": "fermion", "i": i} for i in range(32 if tier == "quick" else 15000)]
    out += [{"sub": "tsu", "i": i} for i in range(24 if tier == "quick" else 10000)]
    return out


def expm(m):
    from scipy.linalg import expm as _e
    return _e(m)


def controlled(u, n_sys, controls, n_total):
    """Dense matrix on n_total qubits: apply u (on qubits 0..n_sys-1 ... placed by `sys_qubits`) iff all controls are 1."""
    raise NotImplementedError


def embed_on(u, sys_qubits, controls, n_total):
    """u acts on sys_qubits (ordered as u's qubits), conditioned on controls."""
    return refsim.embed(u, list(sys_qubits), list(controls), n_total)


def circ_unitary(circ, n):
    return refsim.unitary(gen.from_circuit(circ), n)


def control_options(pr, n_sys, extra):
    """(control argument, list of control qubits, system qubit offset): the system register is shifted when a control uses low indices."""
    return None


def run_words(case, ctx):
    from tangelo.toolboxes.ansatz_generator.ansatz_utils import exp_pauliword_to_gates
    nw = case["nw"]
    words = [w for w in itertools.product("IXYZ", repeat=nw) if any(c != "I" for c in w)][case["lo"]:case["hi"]]
    rng, pr, s = case_rng(ctx.seed, "C06", "words", case["lo"])
    for w in words:
        for coef in COEFS:
            # control layouts: none; one control above the register; list of one; two controls; two controls incl. qubit 0
            layouts = [(None, [], 0), (nw, [nw], 0), ([nw], [nw], 0), ([nw, nw + 1], [nw, nw + 1], 0), ([0, nw + 1], [0, nw + 1], 1)]
            for ctrl, clist, off in layouts:
                if ctrl is not None and coef in (1e-11,) and pr.random() < 0.5:
                    continue
                term = tuple((i + off, p) for i, p in enumerate(w) if p != "I")
                n_tot = max([nw + off] + [c + 1 for c in clist])
                gates = exp_pauliword_to_gates(term, coef, variational=False, control=ctrl)
                gl = [(g.name, g.target, g.control, g.parameter) for g in gates]
                u = refsim.unitary(gl, n_tot)
                sys_q = list(range(off, off + nw))
                P = refsim.pauli_word_matrix([(i, p) for i, p in enumerate(w) if p != "I"], nw)
                target_u = expm(-1j * coef * P)
                exp_full = embed_on(target_u, sys_q, clist, n_tot)
                d = refsim.dist(u, exp_full)
                ctx.check("pauli_word_exponential", d < TOL,
                          f"gate sequence for exp(-i c P) is not exact (phase included) for word {''.join(w)}, c={coef}, control={ctrl}",
                          lambda: {"word": "".join(w), "coef": coef, "control": ctrl, "gates": gl, "max_diff": d})
                if sum(c != "I" for c in w) >= 2:
                    ctx.nontrivial(("word", w, coef, repr(ctrl)))
    ctx.sample({"sub": "words", "n_qubits": nw, "first_word": "".join(words[0]), "n_words": len(words), "coefficients": COEFS})


def commutator_bounds(Hs, t, r):
    """Hs: list of dense Hermitian matrices in the implementation's order. Returns (order-1 bound, order-2 bound)."""
    L = len(Hs)
    nrm = lambda m: float(np.linalg.norm(m, 2)) if m.size else 0.0
    b1 = 0.0
    for j in range(L):
        for k in range(j + 1, L):
            b1 += nrm(Hs[k] @ Hs[j] - Hs[j] @ Hs[k])
    b1 *= t * t / (2 * r)
    b2a = b2b = 0.0
    for j in range(L):
        S = sum(Hs[j + 1:], np.zeros_like(Hs[0]))
        c1 = S @ Hs[j] - Hs[j] @ S
        b2a += nrm(S @ c1 - c1 @ S)
        c2 = Hs[j] @ S - S @ Hs[j]
        b2b += nrm(Hs[j] @ c2 - c2 @ Hs[j])
    b2 = abs(t) ** 3 / (12 * r * r) * b2a + abs(t) ** 3 / (24 * r * r) * b2b
    return b1, b2


def rand_operator(pr, n, commuting):
    if commuting:
        fam = pr.choice(["Z", "X", "stab"])
        if fam == "stab" and n >= 2:
            # mutually commuting words generated from XX.., ZZ.. pairs
            base = [tuple((i, "X") for i in range(n)), tuple((i, "Z") for i in range(n)) if n % 2 == 0 else tuple((i, "Z") for i in range(n - 1))]
            if n % 2 == 1:
                base[0] = tuple((i, "X") for i in range(n - 1))
            terms = {b: pr.uniform(-1.5, 1.5) for b in base}
            if n % 2 == 0 and n >= 2:
                terms[tuple((i, "Y") for i in range(n))] = pr.uniform(-1, 1)
        else:
            terms = gen.random_qubit_terms(pr, n, pr.randint(1, 6), paulis=fam if fam != "stab" else "Z")
    else:
        terms = gen.random_qubit_terms(pr, n, pr.randint(2, 6))
    if pr.random() < 0.5:
        terms[()] = pr.uniform(-1.5, 1.5)
    return terms


def all_commute(mats):
    return all(np.linalg.norm(a @ b - b @ a) < 1e-12 for a, b in itertools.combinations(mats, 2))


def run_evolve(case, ctx):
    from tangelo.toolboxes.ansatz_generator.ansatz_utils import trotterize, get_exponentiated_qubit_operator_circuit
    rng, pr, s = case_rng(ctx.seed, "C06", "evolve", case["i"])
    n = pr.randint(1, 4)
    commuting = case["i"] % 3 == 0
    terms = rand_operator(pr, n, commuting)
    op = gen.to_qubit_operator(terms)
    terms = gen.terms_of(op)
    if not terms:
        return
    order = pr.choice([1, 1, 2, 2, 4]) if not commuting else pr.choice([1, 2, 4])
    steps = pr.randint(1, 4)
    tdict = pr.random() < 0.35
    resonant = case["i"] % 5 == 1
    if resonant:
        # coefficient x time is an exact multiple of pi (typical of phase-estimation settings): exp(-i k pi P) = (-1)^k, not the identity
        terms = {t: pr.choice([0.5, -0.5, 1.0, 0.25, -1.5, 2.0]) for t in terms}
        op = gen.to_qubit_operator(terms)
        terms = gen.terms_of(op)
        steps = pr.choice([1, 1, 2])
        tdict = False
    if tdict:
        time = {t: pr.uniform(-1.2, 1.2) for t in terms}
        eff = {t: c * time[t] for t, c in terms.items()}
        tt = 1.0
    else:
        tt = pr.choice([pr.uniform(-1.5, 1.5), 0.05, 1, np.float64(0.4)])
        if resonant:
            tt = steps * pr.choice([2 * math.pi, math.pi, -2 * math.pi, 4 * math.pi, 6 * math.pi])
        time = tt
        eff = {t: c * tt for t, c in terms.items()}
    ctrl_kind = pr.choice(["none", "none", "int", "list1", "list2", "list2_with0", "int0", "int0", "list_0"])
    off = 1 if ctrl_kind in ("list2_with0", "int0", "list_0") else 0
    if off:
        terms_s = {tuple((i + 1, p) for i, p in t): c for t, c in terms.items()}
        op_s = gen.to_qubit_operator(terms_s)
        time_s = {tuple((i + 1, p) for i, p in t): v for t, v in time.items()} if tdict else time
    else:
        op_s, time_s = op, time
    ctrl, clist = {"none": (None, []), "int": (n, [n]), "list1": ([n], [n]), "list2": ([n, n + 1], [n, n + 1]),
                   "list2_with0": ([0, n + 2], [0, n + 2]), "int0": (0, [0]), "list_0": ([0], [0])}[ctrl_kind]
    ctx.tab("control_kind", ctrl_kind + ("|constant_term" if () in terms else ""))
    n_tot = max([n + off] + [c + 1 for c in clist])
    sys_q = list(range(off, off + n))
    wit = lambda: {"n": n, "terms": [[list(map(list, t)), c] for t, c in terms.items()], "time": time if not tdict else
                   [[list(map(list, t)), v] for t, v in time.items()], "steps": steps, "order": order, "control": ctrl}
    circ, phase = trotterize(op_s, time=time_s, n_trotter_steps=steps, trotter_order=order, control=ctrl, return_phase=True)
    if circ.width > n_tot:
        ctx.check("controlled_evolution", False, "time-evolution circuit uses qubits outside the system + control registers",
                  lambda: dict(wit(), width=circ.width, expected_max=n_tot))
        return
    u = circ_unitary(circ, n_tot) * phase
    Heff = refsim.qubit_operator_matrix(eff, n)
    exact = embed_on(expm(-1j * Heff), sys_q, clist, n_tot)
    err = float(np.linalg.norm(u - exact, 2))
    mats = [refsim.qubit_operator_matrix({t: c}, n) for t, c in eff.items() if t]
    mon = "controlled_evolution" if clist else None
    if all_commute(mats) if mats else True:
        ctx.check("commuting_exact", err < 1e-8, "circuit x returned phase differs from exp(-itH) for commuting terms",
                  lambda: dict(wit(), error=err))
        if clist:
            ctx.ev("controlled_evolution")
    else:
        # term order used by the implementation = insertion order of qubit_op.terms (identity terms commute with everything)
        ordered = [refsim.qubit_operator_matrix({t: c}, n) for t, c in ((t, eff[t]) for t in op.terms) if t]
        b1, b2 = commutator_bounds(ordered, 1.0, steps)
        slack = 1e-9 + 2e-10 * len(terms) * steps * (4 if order > 1 else 1)
        if order == 1:
            ctx.check("trotter_bound_order1", err <= b1 + slack, f"first-order product formula error {err:.3e} exceeds the commutator bound {b1:.3e}",
                      lambda: dict(wit(), error=err, bound=b1))
        elif order == 2:
            ctx.check("trotter_bound_order2", err <= b2 + slack, f"second-order product formula error {err:.3e} exceeds the commutator bound {b2:.3e}",
                      lambda: dict(wit(), error=err, bound=b2))
        elif err > 0.05:
            # far from the asymptotic regime (large time step): halving the step says nothing about the order
            ctx.note("order4_not_asymptotic_skipped")
        else:
            circ2, phase2 = trotterize(op_s, time=time_s, n_trotter_steps=2 * steps, trotter_order=order, control=ctrl, return_phase=True)
            err2 = float(np.linalg.norm(circ_unitary(circ2, n_tot) * phase2 - exact, 2))
            # the asymptotic factor of a 4th-order formula is 16; more than 8 is demanded only where the error is small enough for the
            # leading term to dominate (observed: 6.5 at an error of 3.6e-2), at least second-order-like shrinking (4) elsewhere
            need = 8 if err < 5e-3 else 4
            ctx.check("higher_order_convergence", err2 < 1e-9 or err2 <= err / need + 1e-9,
                      f"order-{order} formula does not converge like a high-order formula (error {err:.3e} -> {err2:.3e} when the step is halved)",
                      lambda: dict(wit(), error=err, error_half_step=err2))
        if clist:
            ctx.ev("controlled_evolution")
        ctx.nontrivial(("evolve", n, sorted(map(repr, terms.items())), repr(time), steps, order, repr(ctrl)))
    # single-step API with explicit pauli order: same identity without steps
    if case["i"] % 4 == 0 and not clist:
        c1, ph1 = get_exponentiated_qubit_operator_circuit(op, time=time, trotter_order=1, return_phase=True)
        u1 = circ_unitary(c1, n) * ph1 if c1.width <= n else None
        if mats and all_commute(mats) and u1 is not None:
            ctx.check("commuting_exact", float(np.linalg.norm(u1 - expm(-1j * Heff), 2)) < 1e-8,
                      "get_exponentiated_qubit_operator_circuit x phase differs from exp(-itH) for commuting terms", wit)
    ctx.sample({"sub": "evolve", "n": n, "n_terms": len(terms), "commuting": commuting, "order": order, "steps": steps, "time_dict": tdict, "control": ctrl})


def run_fermion(case, ctx):
    from tangelo.toolboxes.ansatz_generator.ansatz_utils import trotterize
    from tangelo.toolboxes.operators import FermionOperator
    from tangelo.toolboxes.qubit_mappings.mapping_transform import fermion_to_qubit_mapping, get_qubit_number
    rng, pr, s = case_rng(ctx.seed, "C06", "fermion", case["i"])
    n_orb = pr.choice([1, 2])
    n = 2 * n_orb
    cplx = case["i"] % 4 == 2
    H = fock.random_hermitian_fermion_terms(rng, n_orb, restricted=pr.random() < 0.5, scale=0.5, two_body=pr.random() < 0.6, cplx=cplx)
    ctx.tab("fermionic_coefficients", "complex" if cplx else "real")
    H = {t: c for t, c in H.items() if abs(c) > 1e-12 and not (len(t) == 4 and (t[0] == t[1] or t[2] == t[3]))}
    mapping = pr.choice(["JW", "BK", "JKMN", "SCBK"]) if n >= 4 else pr.choice(["JW", "BK", "JKMN"])
    utd = pr.random() < 0.5
    ne = pr.choice([0, 2]) if mapping == "SCBK" else pr.randint(0, n)
    order = pr.choice([1, 2])
    steps = pr.randint(1, 3)
    tt = pr.uniform(-1.0, 1.0)
    fop = FermionOperator()
    for t, c in H.items():
        fop.terms[t] = c
    opts = {"up_then_down": utd, "qubit_mapping": mapping, "n_spinorbitals": n, "n_electrons": ne}
    snapshot = dict(fop.terms)
    use_dict = case["i"] % 3 == 1
    if use_dict:
        # per-term times; a term and its Hermitian conjugate share their time so that the effective generator stays Hermitian
        tdict = {}
        for t in fop.terms:
            tc = tuple((p, 1 - d) for p, d in reversed(t))
            key = min(t, tc)
            if key not in tdict:
                tdict[key] = pr.uniform(-1.0, 1.0)
        time_arg = {t: tdict[min(t, tuple((p, 1 - d) for p, d in reversed(t)))] for t in fop.terms}
        H = {t: c * time_arg[t] for t, c in H.items()}
        for t in list(fop.terms):
            pass
        tt_eff = 1.0
    else:
        time_arg = tt
        tt_eff = tt
    circ, phase = trotterize(fop, time=time_arg, n_trotter_steps=steps, trotter_order=order, mapping_options=opts, return_phase=True)
    if use_dict:
        # from here on the reference generator is H_eff = sum_t c_t * time_t * term (evolved for unit time)
        fop = FermionOperator()
        for t, c in H.items():
            fop.terms[t] = c
        snapshot = dict(fop.terms)
        tt = 1.0
    nq = get_qubit_number(mapping, n)
    wit = {"n_orb": n_orb, "mapping": mapping, "up_then_down": utd, "n_electrons": ne, "order": order, "steps": steps, "time": tt, "seed_case": case["i"],
           "per_term_time_dictionary": use_dict}
    ctx.check("fermionic_evolution", dict(fop.terms) == snapshot, "trotterize modified its input operator", wit)
    if nq == 0 or circ.width > nq:
        ctx.check("fermionic_evolution", circ.width <= nq, "fermionic time-evolution circuit is wider than the encoding's register", dict(wit, width=circ.width))
        return
    u = circ_unitary(circ, nq) * phase
    # reference Hamiltonian on the qubit register: for JW it is the Fock matrix itself; otherwise the dense image under the real
    # encoder (whose faithfulness is C03's business)
    if mapping == "JW":
        perm = {p: (p // 2 + (n // 2) * (p % 2)) for p in range(n)} if utd else {p: p for p in range(n)}
        Hm = fock.fermion_terms_matrix({tuple((perm[p], d) for p, d in t): c for t, c in H.items()}, n)
    else:
        q = fermion_to_qubit_mapping(fop, mapping, n_spinorbitals=n, n_electrons=ne, up_then_down=utd)
        Hm = refsim.qubit_operator_matrix(gen.terms_of(q), nq)
    exact = expm(-1j * tt * Hm)
    err = float(np.linalg.norm(u - exact, 2))
    # bound from the qubit-term order the implementation used
    qsc = fermion_to_qubit_mapping(fop, mapping, n_spinorbitals=n, n_electrons=ne, up_then_down=utd)
    ordered = [refsim.qubit_operator_matrix({t: complex(c).real * tt}, nq) for t, c in qsc.terms.items() if t]
    b1, b2 = commutator_bounds(ordered, 1.0, steps) if ordered else (0.0, 0.0)
    bound = (b1 if order == 1 else b2) + 1e-8
    ctx.check("fermionic_evolution", err <= bound, f"fermionic time evolution error {err:.3e} exceeds the order-{order} commutator bound {bound:.3e}",
              dict(wit, error=err, bound=bound))
    ctx.nontrivial(("fermion", n_orb, mapping, utd, ne, order, steps, case["i"]))
    ctx.sample(dict(wit, sub="fermion", n_terms=len(H)))


def run_tsu(case, ctx):
    from tangelo.toolboxes.unitary_generator import TrotterSuzukiUnitary
    rng, pr, s = case_rng(ctx.seed, "C06", "tsu", case["i"])
    n = pr.randint(1, 3)
    terms = rand_operator(pr, n, commuting=case["i"] % 2 == 0)
    op = gen.to_qubit_operator(terms)
    terms = gen.terms_of(op)
    nz = [t for t in terms if t]
    if not nz or max(i for t in nz for i, _ in t) != n - 1:
        terms[((n - 1, "Z"),)] = 0.37
        op = gen.to_qubit_operator(terms)
        terms = gen.terms_of(op)
    tt = pr.uniform(-1, 1)
    order = pr.choice([1, 2])
    r = pr.randint(1, 3)
    method = pr.choice(["time", "repeat"])
    tsu = TrotterSuzukiUnitary(op, time=tt, trotter_order=order, n_trotter_steps=r, n_steps_method=method)
    H = refsim.qubit_operator_matrix(terms, n)
    ordered = [refsim.qubit_operator_matrix({t: c}, n) for t, c in op.terms.items() if t]
    # one unitary object, several requests (as phase estimation does: powers 2**i, each with its own control qubit); the same power is
    # also requested again with another control
    k = pr.randint(1, 3)
    requests = [(k, pr.choice([n, [n], [n, n + 1]]))]
    for _ in range(pr.randint(1, 3)):
        requests.append((pr.choice([k, k, pr.randint(1, 3)]), pr.choice([n, n + 1, [n], [n + 1], [n, n + 1], None])))
    for k, ctrl in requests:
        clist = [] if ctrl is None else ([ctrl] if isinstance(ctrl, int) else ctrl)
        n_tot = max(clist + [n - 1]) + 1
        circ = tsu.build_circuit(k, control=ctrl)
        if circ.width > n_tot:
            ctx.check("trotter_suzuki_unitary", False, "TrotterSuzukiUnitary circuit uses qubits outside the system + control registers",
                      lambda: {"n": n, "control": ctrl, "width": circ.width, "requests": requests})
            break
        u = circ_unitary(circ, n_tot)
        exact = embed_on(expm(-1j * tt * k * H), list(range(n)), clist, n_tot)
        # an uncontrolled circuit is compared up to the global phase the circuit does not carry
        err = float(np.linalg.norm(u - exact, 2)) if clist else float(np.linalg.norm(u - refsim.phase_align(u, exact), 2))
        if method == "time":
            b1, b2 = commutator_bounds(ordered, tt * k, r)
        else:
            b1, b2 = commutator_bounds(ordered, tt, r)
            b1, b2 = b1 * k, b2 * k
        bound = (b1 if order == 1 else b2) + 1e-8
        ctx.check("trotter_suzuki_unitary", err <= bound,
                  f"controlled TrotterSuzukiUnitary.build_circuit(n_steps={k}, method={method}, control={ctrl}) error {err:.3e} exceeds the order-{order} bound {bound:.3e}",
                  lambda: {"n": n, "terms": [[list(map(list, t)), c] for t, c in terms.items()], "time": tt, "order": order, "n_trotter_steps": r,
                           "n_steps": k, "method": method, "control": ctrl, "requests_on_this_object": requests, "error": err, "bound": bound})
    ctx.nontrivial(("tsu", n, sorted(map(repr, terms.items())), tt, order, r, k, method, repr(ctrl)))
    ctx.sample({"sub": "tsu", "n": n, "n_terms": len(terms), "order": order, "method": method, "control": ctrl})


def run_case(case, ctx):
    {"words": run_words, "evolve": run_evolve, "fermion": run_fermion, "tsu": run_tsu}[case["sub"]](case, ctx)
