"""C18 - measurement grouping and histogram processing conserve information.

Monitor shape: partition / conservation checkers over recorded outputs.  The real grouping and
histogram functions are called on generated operators and histograms; an independent checker
verifies the partition law (each term exactly once with its coefficient, diagonal in its group's
basis), the assembled expectation value against dense linear algebra, and count / normalisation
conservation of every histogram operation (with an independent marginalisation).
"""
import collections
import math

import numpy as np

from vlib import gen, refsim
from vlib.harness import case_rng

PROPERTY = "C18"
RULE = ("cases = seeded random qubit operators (1-25 Pauli words on <= 6 qubits incl. identity) x grouping seeds x n_repeat, with a "
        "random state for the assembled expectation value; seeded histograms (bitstrings of length 1-7, counts 1-50 or count-derived "
        "probabilities), index sets, expected-outcome dictionaries, both bit orders, shot numbers. distinct = hash(operator, seed) / "
        "hash(histogram, operation arguments); non-trivial = operator with >= 2 non-qubit-wise-commuting terms / histogram with >= 2 "
        "distinct bitstrings")
ASSUMPTIONS = ["per-basis histograms are exact distributions from vlib.refsim after the basis rotation of the real measurement_basis_gates",
               "probabilities given to Histogram are always count-derived (round(p*n) cannot conserve n for arbitrary reals)"]
ANCHORS = [
    ("tangelo/toolboxes/measurements/qubit_terms_grouping.py", "group_qwc", "clique-cover wrapper"),
    ("tangelo/toolboxes/measurements/qubit_terms_grouping.py", "exp_value_from_measurement_bases", "per-basis accumulation of term expectation values"),
    ("tangelo/toolboxes/measurements/qubit_terms_grouping.py", "check_bases_commute_qwc,map_measurements_qwc", "qubit-wise compatibility map"),
    ("tangelo/toolboxes/post_processing/histogram.py", "Histogram,aggregate_histograms,filter_hist", "histogram construction, aggregation, index removal, filtering"),
    ("tangelo/toolboxes/post_processing/post_selection.py", "post_select,strip_post_selection,split_frequency_dict,split_frequency_dict_for_last_n_digits", "marginalisation / post-selection helpers"),
    ("tangelo/toolboxes/post_processing/bootstrapping.py", "get_resampled_frequencies", "resampling and bitstring formatting"),
]
REQUIRED = {"histogram_history": 200, "grouping_is_partition": 100, "term_diagonal_in_basis": 51, "assembled_expectation": 100, "map_measurements": 51, "histogram_conservation": 983, "marginal_expectation_unchanged": 180, "resample": 100, "split_conservation": 200}
BUDGET = {"quick": 200, "thorough": 1800}


def cases(tier, seed):
    out = [{"sub": "bigresample", "i": i} for i in range(1 if tier == "quick" else 3)]
    out += [{"sub": "group", "i": i} for i in range(128 if tier == "quick" else 30000)]
    out += [{"sub": "hist", "i": i} for i in range(256 if tier == "quick" else 100000)]
    out += [{"sub": "hist_history", "i": i} for i in range(128 if tier == "quick" else 60000)]
    return out


def exact_basis_hist(psi, n, basis):
    """Exact outcome distribution after rotating into `basis` with the real measurement_basis_gates."""
    from tangelo.linq.helpers.circuits.measurement_basis import measurement_basis_gates
    gs = [(g.name, g.target, g.control, g.parameter) for g in measurement_basis_gates(basis)]
    st = refsim.run(gs, n, psi)
    return refsim.freq_dict(st, n, threshold=0.0)


def run_group(case, ctx):
    from tangelo.toolboxes.measurements import group_qwc, exp_value_from_measurement_bases
    from tangelo.toolboxes.measurements.qubit_terms_grouping import map_measurements_qwc
    rng, pr, s = case_rng(ctx.seed, "C18", "group", case["i"])
    n = pr.randint(1, 6)
    terms = gen.random_qubit_terms(pr, n, pr.randint(1, 25), complex_coeffs=False)
    cstyle = pr.choice(["real", "real", "complex", "some_imaginary"])
    if cstyle == "complex":
        terms = {t: complex(c, pr.uniform(-1, 1)) for t, c in terms.items()}
    elif cstyle == "some_imaginary":
        # anti-Hermitian pieces (generators, i[A,B]): coefficients with real part exactly zero
        terms = {t: (complex(0.0, c) if pr.random() < 0.5 else c) for t, c in terms.items()}
    ctx.tab("grouping_coefficients", cstyle)
    op = gen.to_qubit_operator(terms)
    terms = gen.terms_of(op)
    seed = pr.choice([None, 0, 1, pr.randint(0, 10 ** 6)])
    n_rep = pr.choice([1, 1, 2, 5])
    before = dict(op.terms)
    groups = group_qwc(op, seed=seed, n_repeat=n_rep)
    wit = {"n": n, "terms": [[list(map(list, t)), c] for t, c in terms.items()], "seed": seed, "n_repeat": n_rep}
    seen = collections.Counter()
    coeff_ok = True
    diag_ok = True
    for basis, sub in groups.items():
        bd = dict(basis)
        if len(bd) != len(basis):
            diag_ok = False
        for t, c in sub.terms.items():
            seen[t] += 1
            if t not in terms or abs(terms[t] - c) > 1e-12:
                coeff_ok = False
            for idx, p in t:
                if bd.get(idx) != p:
                    diag_ok = False
    part_ok = coeff_ok and set(seen) == set(terms) and all(v == 1 for v in seen.values())
    ctx.check("grouping_is_partition", part_ok, "qubit-wise-commuting grouping is not a partition of the operator's terms (missing, duplicated or altered term)",
              lambda: dict(wit, groups={repr(b): repr(dict(o.terms)) for b, o in groups.items()}))
    ctx.check("term_diagonal_in_basis", diag_ok, "a term is not diagonal in its group's measurement basis",
              lambda: dict(wit, groups={repr(b): repr(dict(o.terms)) for b, o in groups.items()}))
    ctx.check("grouping_is_partition", dict(op.terms) == before, "group_qwc modified its input operator", wit)
    # a second operator with the same Pauli words in the same order but other coefficients (e.g. the next point of a geometry scan),
    # grouped with the same seed in the same process: its groups carry ITS coefficients
    if seed is not None:
        from tangelo.toolboxes.operators import QubitOperator as _TQ
        op2 = _TQ()
        terms2 = {}
        for t in op.terms:
            terms2[t] = pr.uniform(-2, 2)
            op2.terms[t] = terms2[t]
        groups2 = group_qwc(op2, seed=seed, n_repeat=n_rep)
        seen2 = collections.Counter()
        ok2 = True
        for basis, sub in groups2.items():
            for t, c in sub.terms.items():
                seen2[t] += 1
                if t not in terms2 or abs(terms2[t] - c) > 1e-12:
                    ok2 = False
        ctx.check("grouping_is_partition", ok2 and set(seen2) == set(terms2) and all(v == 1 for v in seen2.values()),
                  "grouping a second operator (same Pauli words, other coefficients, same seed) does not return that operator's coefficients",
                  lambda: dict(wit, second_terms=[[list(map(list, t)), c] for t, c in terms2.items()],
                               groups={repr(b): repr(dict(o.terms)) for b, o in groups2.items()}))
    # assembled expectation value from exact per-basis histograms
    psi = gen.random_state(rng, n)
    hists = {b: exact_basis_hist(psi, n, b) for b in groups}
    got = exp_value_from_measurement_bases(groups, hists)
    exact = refsim.expectation(terms, psi, n)
    ctx.check("assembled_expectation", abs(complex(got) - exact) < 1e-9, "expectation value assembled from per-basis histograms differs from the term-by-term value",
              lambda: dict(wit, got=got, expected=exact))
    # compatibility map
    mm = map_measurements_qwc(groups)
    exp = {}
    for b1 in [t for o in groups.values() for t in o.terms]:
        if not b1:
            continue
        for b2 in groups:
            d1, d2 = dict(b1), dict(b2)
            if all(d1[i] == d2[i] for i in set(d1) & set(d2)):
                exp.setdefault(b1, []).append(b2)
    okm = set(mm) == set(exp) and all(sorted(map(repr, mm[k])) == sorted(map(repr, exp[k])) for k in exp)
    ctx.check("map_measurements", okm, "map_measurements_qwc differs from the independent qubit-wise compatibility predicate",
              lambda: dict(wit, got={repr(k): repr(v) for k, v in mm.items()}, expected={repr(k): repr(v) for k, v in exp.items()}))
    # shots of a compatible basis give the same term expectation value
    for t, bases in list(mm.items())[:6]:
        e_ref = refsim.expectation({t: 1.0}, psi, n).real
        for b in bases:
            from tangelo.linq import get_expectation_value_from_frequencies_oneterm as ev1
            full_b = tuple(sorted(set(b) | set(t)))
            # measuring in a basis that contains t's letters on t's qubits determines <t>
            if all(dict(b).get(i) == p for i, p in t):
                e = ev1(t, hists[b])
                ctx.check("assembled_expectation", abs(e - e_ref) < 1e-9, "a term's expectation value from a compatible basis histogram is wrong",
                          lambda: dict(wit, term=t, basis=b, got=e, expected=e_ref))
    qwc_pairs = sum(1 for a in terms for b in terms if a < b and not all(dict(a).get(i, p) == p for i, p in b))
    if qwc_pairs >= 1 and len(terms) >= 2:
        ctx.nontrivial(("group", n, sorted(map(repr, terms.items())), seed, n_rep))
    ctx.sample({"sub": "group", "n": n, "n_terms": len(terms), "n_groups": len(groups), "seed": seed, "n_repeat": n_rep})


def marginal(counts, remove):
    out = {}
    for k, v in counts.items():
        nk = "".join(ch for i, ch in enumerate(k) if i not in remove)
        out[nk] = out.get(nk, 0) + v
    return out


def rand_counts(pr, n, kmax=12, cmax=50):
    keys = {"".join(pr.choice("01") for _ in range(n)) for _ in range(pr.randint(1, kmax))}
    return {k: pr.randint(1, cmax) for k in sorted(keys)}


def close(a, b, tol=1e-9):
    return set(a) == set(b) and all(abs(a[k] - b[k]) <= tol for k in a)


def run_hist(case, ctx):
    from tangelo.toolboxes.post_processing.histogram import Histogram, aggregate_histograms, filter_hist
    from tangelo.toolboxes.post_processing.post_selection import post_select, strip_post_selection, split_frequency_dict, \
        split_frequency_dict_for_last_n_digits
    from tangelo.toolboxes.post_processing.bootstrapping import get_resampled_frequencies
    from tangelo.linq import get_expectation_value_from_frequencies_oneterm as ev1
    rng, pr, s = case_rng(ctx.seed, "C18", "hist", case["i"])
    n = pr.randint(1, 7)
    counts = rand_counts(pr, n)
    tot = sum(counts.values())
    wit = {"counts": counts}
    chk = lambda ok, msg, extra=None: ctx.check("histogram_conservation", ok, msg, dict(wit, **(extra or {})))
    # construction from counts / from count-derived probabilities / msq_first
    h = Histogram(dict(counts))
    chk(h.n_shots == tot and h.counts == counts and h.n_qubits == n, "Histogram(counts) does not keep the counts")
    probs = {k: v / tot for k, v in counts.items()}
    hp = Histogram(dict(probs), n_shots=tot)
    chk(hp.n_shots == tot and hp.counts == counts, "Histogram(probabilities, n_shots) does not reproduce the counts the probabilities came from",
        {"got": hp.counts})
    hm = Histogram(dict(counts), msq_first=True)
    chk(hm.n_shots == tot and hm.counts == {k[::-1]: v for k, v in counts.items()}, "msq_first reversal changed counts", {"got": hm.counts})
    chk(abs(sum(h.frequencies.values()) - 1) < 1e-12 and close(h.frequencies, probs, 1e-12), "frequencies are not counts / n_shots")
    # aggregation
    counts2 = rand_counts(pr, n)
    h2 = Histogram(dict(counts2))
    agg = aggregate_histograms(h, h2) if pr.random() < 0.5 else (h + h2)
    exp = collections.Counter(counts) + collections.Counter(counts2)
    chk(agg.n_shots == tot + sum(counts2.values()) and agg.counts == dict(exp), "aggregation does not add counts", {"other": counts2, "got": agg.counts})
    chk(h.counts == counts and h2.counts == counts2, "aggregation modified an input histogram", {"other": counts2})
    h3 = Histogram(dict(counts))
    h3 += h2
    chk(h3.counts == dict(exp), "+= does not add counts", {"other": counts2, "got": h3.counts})
    # index removal
    rem = set(pr.sample(range(n), pr.randint(0, n - 1))) if n > 1 else set()
    hr = Histogram(dict(counts))
    hr.remove_qubit_indices(*rem)
    chk(hr.n_shots == tot and hr.counts == marginal(counts, rem), "remove_qubit_indices does not marginalise (total or per-key counts wrong)",
        {"removed": sorted(rem), "got": hr.counts})
    # post selection
    sel = {i: pr.choice("01") for i in (pr.sample(range(n), pr.randint(1, n - 1)) if n > 1 else [])}
    if sel:
        hs = Histogram(dict(counts))
        matching = {k: v for k, v in counts.items() if all(k[i] == b for i, b in sel.items())}
        if matching:
            hs.post_select(sel)
            chk(hs.n_shots == sum(matching.values()) and hs.counts == marginal(matching, set(sel)),
                "post_select: total is not the sum of the matching counts / remaining bitstrings wrong", {"expected_outcomes": sel, "got": hs.counts})
            ps = post_select(dict(probs), sel)
            mt = sum(matching.values())
            expf = {k: v / mt for k, v in marginal(matching, set(sel)).items()}
            ctx.check("split_conservation", abs(sum(ps.values()) - 1) < 1e-9 and close(ps, expf), "post_select(frequencies) is not the renormalised matching part",
                      dict(wit, expected_outcomes=sel, got=ps))
        sp = strip_post_selection(dict(probs), *sel.keys())
        ctx.check("split_conservation", abs(sum(sp.values()) - 1) < 1e-9 and close(sp, {k: v / tot for k, v in marginal(counts, set(sel)).items()}),
                  "strip_post_selection does not conserve normalisation", dict(wit, removed=sorted(sel), got=sp))
    # filter
    hf = filter_hist(Histogram(dict(counts)), lambda b: b.count("1") % 2 == 0)
    chk(hf.counts == {k: v for k, v in counts.items() if k.count("1") % 2 == 0}, "filter_hist lost or changed counts")
    # splitting mid-circuit from final results
    if n >= 2:
        k_mid = pr.randint(1, n - 1)
        mid, fin = split_frequency_dict(dict(probs), list(range(k_mid)))
        ctx.check("split_conservation", abs(sum(mid.values()) - 1) < 1e-9 and abs(sum(fin.values()) - 1) < 1e-9 and
                  close(mid, {k: v / tot for k, v in marginal(counts, set(range(k_mid, n))).items()}) and
                  close(fin, {k: v / tot for k, v in marginal(counts, set(range(k_mid))).items()}),
                  "split_frequency_dict parts are not the two marginals", dict(wit, k_mid=k_mid, mid=mid, fin=fin))
        desired = "".join(pr.choice("01") for _ in range(k_mid))
        match = {k: v for k, v in counts.items() if k[:k_mid] == desired}
        if match:
            mid2, fin2 = split_frequency_dict(dict(probs), list(range(k_mid)), desired_measurement=desired)
            mt = sum(match.values())
            ctx.check("split_conservation", close(fin2, {k: v / mt for k, v in marginal(match, set(range(k_mid))).items()}) and abs(sum(fin2.values()) - 1) < 1e-9,
                      "split_frequency_dict(desired_measurement) final part is not the renormalised matching marginal",
                      dict(wit, k_mid=k_mid, desired=desired, fin=fin2))
        # arbitrary index lists (any order, gaps): desired_measurement[k] refers to indices[k]
        idx_list = pr.sample(range(n), pr.randint(1, n - 1))
        des = "".join(pr.choice("01") for _ in idx_list)
        want = dict(zip(idx_list, des))
        match2 = {k: v for k, v in counts.items() if all(k[i] == bb for i, bb in want.items())}
        midx = split_frequency_dict(dict(probs), list(idx_list))[0]
        ctx.check("split_conservation", close(midx, {k: v / tot for k, v in marginal(counts, set(range(n)) - set(idx_list)).items()}),
                  "split_frequency_dict: first part is not the marginal on the listed indices", dict(wit, indices=idx_list, mid=midx))
        if match2:
            _, fin3 = split_frequency_dict(dict(probs), list(idx_list), desired_measurement=des)
            mt2 = sum(match2.values())
            ctx.check("split_conservation", close(fin3, {k: v / mt2 for k, v in marginal(match2, set(idx_list)).items()}) and abs(sum(fin3.values()) - 1) < 1e-9,
                      "split_frequency_dict(indices in arbitrary order, desired_measurement) is not the distribution post-selected on desired[k] at indices[k]",
                      dict(wit, indices=idx_list, desired=des, fin=fin3))
        a, b = split_frequency_dict_for_last_n_digits(dict(probs), n - k_mid)
        ctx.check("split_conservation", close(a, mid) and close(b, fin), "split_frequency_dict_for_last_n_digits parts are not the two marginals",
                  dict(wit, k_mid=k_mid, first=a, last=b))
        # boundary splits: nothing / everything in the 'last n digits' part
        a0, b0 = split_frequency_dict_for_last_n_digits(dict(probs), 0)
        an, bn = split_frequency_dict_for_last_n_digits(dict(probs), n)
        ctx.check("split_conservation", close(a0, probs) and close(b0, {"": 1.0}) and close(an, {"": 1.0}) and close(bn, probs),
                  "split_frequency_dict_for_last_n_digits with n = 0 / n = all digits does not return (everything, nothing) / (nothing, everything)",
                  dict(wit, n0=[a0, b0], nall=[an, bn]))
        # variable-length keys (what measurement-controlled circuits produce)
        var = {}
        for k, v in probs.items():
            pre = "".join(pr.choice("01") for _ in range(pr.randint(0, 2)))
            var[pre + k] = var.get(pre + k, 0) + v
        a, b = split_frequency_dict_for_last_n_digits(dict(var), n)
        ctx.check("split_conservation", abs(sum(a.values()) - 1) < 1e-9 and close(b, probs), "last-n-digits split loses weight with variable-length keys",
                  dict(wit, joint=var, first=a, last=b))
    # marginalising qubits a Pauli term does not act on leaves its expectation value unchanged
    if n >= 2:
        idxs = sorted(pr.sample(range(n), pr.randint(1, n - 1)))
        term = tuple((i, pr.choice("XYZ")) for i in idxs)
        others = [i for i in range(n) if i not in idxs]
        rm = set(pr.sample(others, pr.randint(1, len(others))))
        e0 = ev1(term, probs)
        hm2 = Histogram(dict(counts))
        hm2.remove_qubit_indices(*rm)
        shift = {i: i - sum(1 for r in rm if r < i) for i in idxs}
        term2 = tuple((shift[i], p) for i, p in term)
        e1 = hm2.get_expectation_value(term2)
        ctx.check("marginal_expectation_unchanged", abs(e0 - e1) < 1e-12, "marginalising untouched qubits changed a term's expectation value",
                  dict(wit, term=term, removed=sorted(rm), before=e0, after=e1))
        eh = Histogram(dict(counts)).get_expectation_value(term, 2.5)
        par = sum(v / tot * (-1) ** sum(int(k[i]) for i in idxs) for k, v in counts.items())
        ctx.check("marginal_expectation_unchanged", abs(eh - 2.5 * par) < 1e-12, "Histogram.get_expectation_value is not the parity average",
                  dict(wit, term=term, got=eh, expected=2.5 * par))
    # resampling
    ns = pr.choice([1, 7, 100, 1000])
    np.random.seed(s)
    rf = get_resampled_frequencies(dict(probs), ns)
    okr = set(rf) <= set(counts) and all(len(k) == n for k in rf) and abs(sum(rf.values()) - 1) < 1e-9 and \
        all(abs(v * ns - round(v * ns)) < 1e-6 for v in rf.values())
    ctx.check("resample", okr, "resampled frequencies: support not within the original, wrong key width, or not ncount shots", dict(wit, ncount=ns, got=rf))
    np.random.seed(s + 1)
    hr2 = Histogram(dict(counts)).resample(ns)
    ctx.check("resample", hr2.n_shots == ns and set(hr2.counts) <= set(counts), "Histogram.resample does not return the requested number of shots",
              dict(wit, ncount=ns, got=hr2.counts))
    if ns >= 1000 and len(counts) >= 2:
        from props.c01 import chi2_ok
        ok, info = chi2_ok({k: v / ns for k, v in hr2.counts.items()}, probs, ns)
        ctx.check("resample", ok, f"resampled histogram is not a draw from the original frequencies ({info})", dict(wit, ncount=ns, got=hr2.counts))
    if len(counts) >= 2:
        ctx.nontrivial(("hist", sorted(counts.items()), sorted(rem), sorted(sel.items())))
    ctx.sample({"sub": "hist", "counts": counts, "removed": sorted(rem), "post_select": sel})


def run_bigresample(case, ctx):
    """Shot numbers at and beyond the resampler's internal chunk size (10**7), incl. exact multiples."""
    from tangelo.toolboxes.post_processing.bootstrapping import get_resampled_frequencies
    rng, pr, s = case_rng(ctx.seed, "C18", "bigresample", case["i"])
    counts = rand_counts(pr, 2, kmax=4, cmax=9)
    tot = sum(counts.values())
    probs = {k: v / tot for k, v in counts.items()}
    for ns in ([10 ** 7] if case["i"] == 0 else [2 * 10 ** 7, 10 ** 7 + 1][case["i"] - 1: case["i"]]):
        np.random.seed(s)
        rf = get_resampled_frequencies(dict(probs), ns)
        tsum = sum(rf.values())
        dev = max(abs(rf.get(k, 0) - p) / max(math.sqrt(p * (1 - p) / ns), 1e-12) for k, p in probs.items()) if len(probs) > 1 else 0.0
        ctx.check("resample", abs(tsum - 1) < 1e-9 and set(rf) <= set(probs) and dev < 7,
                  f"resampling with ncount={ns} (chunked sampling) does not give ncount shots of the original distribution (sum of frequencies {tsum})",
                  {"counts": counts, "ncount": ns, "got": rf})
        ctx.nontrivial(("bigresample", ns, sorted(counts.items())))


def run_hist_history(case, ctx):
    """One Histogram object, a history of reads and in-place operations, against a shadow dictionary of counts: after every step the
    counts, the total, the normalised frequencies and a Z-string expectation value are those of the shadow."""
    from tangelo.toolboxes.post_processing.histogram import Histogram
    rng, pr, s = case_rng(ctx.seed, "C18", "hist_history", case["i"])
    n = pr.randint(2, 7)
    shadow = rand_counts(pr, n, kmax=20)
    h = Histogram(dict(shadow))
    log = [["init", dict(shadow)]]

    def z_expect(counts, qs):
        tot = sum(counts.values())
        return sum(v * (-1) ** sum(int(k[q]) for q in qs) for k, v in counts.items()) / tot

    def observe(step):
        nq = len(next(iter(shadow)))
        tot = sum(shadow.values())
        ok = h.counts == shadow and h.n_shots == tot and h.n_qubits == nq
        fr = h.frequencies
        ok = ok and abs(sum(fr.values()) - 1) < 1e-12 and close(fr, {k: v / tot for k, v in shadow.items()}, 1e-12)
        qs = sorted(pr.sample(range(nq), pr.randint(0, nq)))
        e = h.get_expectation_value(tuple((q, "Z") for q in qs), 1.0)
        ok = ok and abs(e - z_expect(shadow, qs)) < 1e-12
        ctx.check("histogram_history", ok, f"after {step} the histogram's counts / total / frequencies / expectation value are not those of the counts it holds",
                  lambda: {"log": log, "counts": dict(h.counts), "n_shots": h.n_shots, "frequencies_sum": sum(fr.values()), "shadow": dict(shadow),
                           "expectation": e, "expected_expectation": z_expect(shadow, qs), "word_qubits": qs})
        return ok
    for _ in range(pr.randint(2, 7)):
        nq = len(next(iter(shadow)))
        ops = ["read", "iadd"]
        if nq >= 2:
            ops += ["remove", "post_select", "post_select"]
        op = pr.choice(ops)
        if op == "read":
            log.append(["read"])
        elif op == "iadd":
            other = rand_counts(pr, nq, kmax=8)
            log.append(["+=", dict(other)])
            h += Histogram(dict(other))
            for k, v in other.items():
                shadow[k] = shadow.get(k, 0) + v
        elif op == "remove":
            rem = set(pr.sample(range(nq), pr.randint(1, nq - 1)))
            log.append(["remove_qubit_indices", sorted(rem)])
            h.remove_qubit_indices(*rem)
            shadow = marginal(shadow, rem)
        else:
            sel = {i: pr.choice("01") for i in pr.sample(range(nq), pr.randint(1, nq - 1))}
            matching = {k: v for k, v in shadow.items() if all(k[i] == b for i, b in sel.items())}
            if not matching:
                # pick the outcomes of an existing bitstring so that something survives
                k0 = pr.choice(sorted(shadow))
                sel = {i: k0[i] for i in sel}
                matching = {k: v for k, v in shadow.items() if all(k[i] == b for i, b in sel.items())}
            log.append(["post_select", {str(i): b for i, b in sel.items()}])
            h.post_select(sel)
            shadow = marginal(matching, set(sel))
        if not observe(log[-1][0]):
            break
    ctx.nontrivial(("hist_history", repr(log)))
    ctx.sample({"sub": "hist_history", "steps": len(log)})


def run_case(case, ctx):
    {"group": run_group, "hist": run_hist, "bigresample": run_bigresample, "hist_history": run_hist_history}[case["sub"]](case, ctx)
