"""C02 - expectation values equal <psi|H|psi> on every evaluation path.

Monitor shape: reference-model monitor over the cross product of evaluation paths.  For each
generated (operator, circuit, initial state, desired mid-circuit result) the real
get_expectation_value / get_variance / get_standard_error and the two route functions are called
on: the cirq backend (native route), a user-defined Backend subclass without a native
expectation routine (the documented extension point - this is what reaches the generic loop in
backend.py), and the sympy backend; each returned number is compared with dense linear algebra
on the reference simulator's state.
"""
import math

import numpy as np

from vlib import gen, refsim
from vlib.harness import case_rng

PROPERTY = "C02"
RULE = ("cases = seeded random (qubit operator, circuit) pairs: 1-12 Pauli words on <= 6 qubits incl. identity, real or "
        "complex coefficients; circuits from the full gate set, optionally with MEASURE gates (every outcome string "
        "requested), optional random initial statevector, empty circuit, identity-only operator; each pair is pushed "
        "through every evaluation path. distinct = hash(operator, circuit, flags); non-trivial = circuit with >= 2 "
        "entangling/parameterised gates and operator with >= 2 terms")
ASSUMPTIONS = ["vlib.refsim state + dense Pauli algebra is the oracle",
               "sampled paths: |estimate - exact| <= 6*sqrt(sum c_i^2 (1-<P_i>^2)/n_shots), RNG seeded per case",
               "generic route is driven through a Backend subclass that delegates simulate_circuit to cirq"]
ANCHORS = [
    ("tangelo/linq/target/backend.py", "get_expectation_value", "path selection and real/imaginary split"),
    ("tangelo/linq/target/backend.py", "_get_expectation_value_from_statevector", "statevector route incl. Pauli-circuit overlap and sampled variant"),
    ("tangelo/linq/target/backend.py", "_get_expectation_value_from_frequencies", "frequency route"),
    ("tangelo/linq/target/backend.py", "get_expectation_value_from_frequencies_oneterm,get_variance_from_frequencies_oneterm", "parity of masked bitstring"),
    ("tangelo/linq/helpers/circuits/measurement_basis.py", "measurement_basis_gates", "measurement-basis rotations"),
    ("tangelo/linq/target/target_cirq.py", "expectation_value_from_prepared_state", "cirq native expectation"),
    ("tangelo/linq/target/backend.py", "get_variance,get_standard_error,_get_variance_from_frequencies", "variance / standard error"),
]
REQUIRED = {"operator_and_backend_reuse": 100, "live_observations_total": 50, "cirq_native": 72, "cirq_freq_route_exact": 48, "generic_statevector_loop": 100, "generic_sampled": 8, "cirq_sampled": 16, "variance_exact": 50, "std_error_sampled": 10, "desired_meas_result": 20, "sympy": 3}
BUDGET = {"quick": 240, "thorough": 2400}
TOL = 1e-8

_generic_cls = None


def generic_backend_class():
    """A user-defined backend (documented extension point) with no expectation_value_from_prepared_state."""
    global _generic_cls
    if _generic_cls is None:
        from tangelo.linq.target.backend import Backend
        from tangelo.linq import get_backend

        class GenericBackend(Backend):
            def __init__(self, n_shots=None, noise_model=None):
                super().__init__(n_shots=n_shots, noise_model=noise_model)
                self._inner = get_backend("cirq", n_shots=n_shots, noise_model=noise_model)

            def simulate_circuit(self, source_circuit, return_statevector=False, initial_statevector=None,
                                 desired_meas_result=None, save_mid_circuit_meas=False):
                self._inner.n_shots = self.n_shots
                r = self._inner.simulate_circuit(source_circuit, return_statevector=return_statevector,
                                                 initial_statevector=initial_statevector,
                                                 desired_meas_result=desired_meas_result,
                                                 save_mid_circuit_meas=save_mid_circuit_meas)
                for a in ("all_frequencies", "mid_circuit_meas_freqs"):
                    if hasattr(self._inner, a):
                        setattr(self, a, getattr(self._inner, a))
                return r

            @staticmethod
            def backend_info():
                return {"statevector_available": True, "statevector_order": "lsq_first", "noisy_simulation": True}

        _generic_cls = GenericBackend
    return _generic_cls


def cases(tier, seed):
    n = 240 if tier == "quick" else 5000
    out = [{"sub": "pair", "i": i} for i in range(n)]
    out += [{"sub": "sympy", "i": i} for i in range(8 if tier == "quick" else 200)]
    out += [{"sub": "oneterm", "i": i} for i in range(16 if tier == "quick" else 200)]
    # shot numbers beyond the sampler's internal chunk size (10**7): samples are accumulated over several chunks
    out = [{"sub": "bigshots", "i": i} for i in range(1 if tier == "quick" else 4)] + out
    out.append({"sub": "repo_tests", "tier": tier})
    out += [{"sub": "reuse", "i": i} for i in range(40 if tier == "quick" else 2000)]
    return out


def dense_expectation(terms, psi, n):
    return refsim.expectation(terms, psi, n)


def term_stats(terms, psi, n):
    """[(coeff, <P>)] per non-identity term and the identity constant."""
    out = []
    for t, c in terms.items():
        e = refsim.expectation({t: 1.0}, psi, n).real if t else 1.0
        out.append((t, c, e))
    return out


def sigma_bound(stats, n_shots):
    v = sum((abs(c) ** 2) * max(0.0, 1 - e * e) for t, c, e in stats if t)
    return math.sqrt(v / n_shots)


def insert_measures(pr, gates, n, k):
    g = list(gates)
    for _ in range(k):
        pos = pr.randint(0, len(g))
        g.insert(pos, ("MEASURE", [pr.randrange(n)], None, ""))
    return g


def run_pair(case, ctx):
    from tangelo.linq import get_backend
    rng, pr, s = case_rng(ctx.seed, "C02", "pair", case["i"])
    i = case["i"]
    big = ctx.tier == "thorough"
    n = pr.randint(1, 6 if big else 5)
    kind = i % 12
    ng = 0 if kind == 0 else pr.randint(1, 14)
    gates = gen.random_gates(pr, n, ng, hostile=0.2, echo=0.05)
    n_terms = pr.randint(1, 12)
    cplx = (i % 3 == 1)
    terms = gen.random_qubit_terms(pr, n, n_terms, complex_coeffs=cplx)
    if kind == 1:
        terms = {(): pr.uniform(-2, 2)}
    if kind == 2 and n > 1:  # operator on a strict subset of the qubits
        terms = gen.random_qubit_terms(pr, n - 1, n_terms, complex_coeffs=cplx)
    op = gen.to_qubit_operator(terms)
    terms = gen.terms_of(op)
    init = gen.random_state(rng, n) if i % 2 == 0 else None
    n_meas = 0
    if kind in (5, 6, 7) and ng > 0:
        n_meas = pr.randint(1, 2)
        gates = insert_measures(pr, gates, n, n_meas)
    circ = gen.to_circuit(gates, n_qubits=n)
    wit_base = {"gates": gates, "n_qubits": n, "terms": [[list(map(list, t)), c] for t, c in terms.items()], "initial": init}
    nontriv = gen.nontrivial_circuit(gates) and len(terms) >= 2
    if nontriv:
        ctx.nontrivial(("pair", gates, sorted(map(repr, terms.items())), init is not None))
    ctx.sample({"gates": gates, "n_qubits": n, "n_terms": len(terms), "complex": cplx, "with_initial": init is not None, "n_measure": n_meas})

    cq = get_backend("cirq")
    gb = get_backend(generic_backend_class())

    if n_meas:
        import itertools
        done_var = False
        for outcome in itertools.product("01", repeat=n_meas):
            b = "".join(outcome)
            psi, p = refsim.run_branch(gates, n, b, init)
            if psi is None or p < 1e-9:
                continue
            exact = dense_expectation(terms, psi, n)
            for name, be in (("cirq", cq), ("generic", gb)):
                got = be.get_expectation_value(op, circ, initial_statevector=init, desired_meas_result=b)
                ctx.check("desired_meas_result", abs(complex(got) - exact) < 1e-7,
                          f"{name}: expectation value conditioned on mid-circuit outcomes {b} differs from the branch state's value",
                          lambda: dict(wit_base, desired=b, got=complex(got), expected=exact, backend=name))
            if not cplx:
                got = cq._get_expectation_value_from_frequencies(op, circ, initial_statevector=init, desired_meas_result=b)
                ctx.check("desired_meas_result", abs(complex(got) - exact) < 1e-7,
                          f"cirq frequency route conditioned on outcomes {b} differs from the branch state's value",
                          lambda: dict(wit_base, desired=b, got=complex(got), expected=exact, backend="cirq-freq-route"))
            # variance / standard error conditioned on the requested outcomes: sampling the branch distribution
            st = term_stats(terms, psi, n)
            var_b = sum((abs(complex(c).real) ** 2 + abs(complex(c).imag) ** 2) * max(0.0, 1 - e * e) for t, c, e in st if t)
            ns = 2000
            bsv = get_backend("cirq", n_shots=ns)
            np.random.seed(s + len(b))
            # with shots the requested outcomes are obtained by post-selection: the number of usable shots is Binomial(ns, p)
            n_eff = ns * p - 6 * math.sqrt(max(0.0, ns * p * (1 - p)))
            if p < 0.2 or n_eff < 200 or len(terms) > 5 or done_var:
                ctx.note("conditioned_variance_skipped")
                continue
            done_var = True
            try:
                gv = bsv.get_variance(op, circ, initial_statevector=init, desired_meas_result=b)
                tol = 1e-9
                for t, c, e in st:
                    if t:
                        d = 6 * math.sqrt(max(0.0, 1 - e * e) / n_eff)
                        tol += abs(c) ** 2 * (2 * abs(e) * d + d * d + 2.0 / n_eff)
                ctx.check("variance_desired_meas_result", abs(complex(gv) - var_b) <= tol,
                          f"variance conditioned on mid-circuit outcomes {b} is not that of sampling the branch distribution",
                          lambda: dict(wit_base, desired=b, got=complex(gv), expected=var_b, tolerance=tol, n_shots=ns))
            except ValueError as ex:
                if "was not measured" in str(ex):
                    ctx.note("rare_branch_not_sampled")
                else:
                    raise
        return

    psi = refsim.run(gates, n, init)
    exact = dense_expectation(terms, psi, n)
    stats = term_stats(terms, psi, n)

    got = cq.get_expectation_value(op, circ, initial_statevector=init)
    ctx.check("cirq_native", abs(complex(got) - exact) < TOL, "cirq get_expectation_value differs from <psi|H|psi>",
              lambda: dict(wit_base, got=complex(got), expected=exact))
    got2 = gb.get_expectation_value(op, circ, initial_statevector=init)
    ctx.check("generic_statevector_loop", abs(complex(got2) - exact) < TOL,
              "generic (user backend) get_expectation_value differs from <psi|H|psi>",
              lambda: dict(wit_base, got=complex(got2), expected=exact))
    if not cplx:
        got3 = cq._get_expectation_value_from_frequencies(op, circ, initial_statevector=init)
        ctx.check("cirq_freq_route_exact", abs(complex(got3) - exact) < 1e-7,
                  "exact-frequency route differs from <psi|H|psi>", lambda: dict(wit_base, got=complex(got3), expected=exact))
        got4 = gb._get_expectation_value_from_statevector(op, circ, initial_statevector=init)
        ctx.check("generic_statevector_loop", abs(complex(got4) - exact) < TOL,
                  "generic statevector route differs from <psi|H|psi>", lambda: dict(wit_base, got=complex(got4), expected=exact))

    # variance / standard error, exact mode (n_shots=None): documented independent-term formula, std error 0
    var_exact = sum((abs(c.real) ** 2 + abs(complex(c).imag) ** 2) * max(0.0, 1 - e * e) for t, c, e in stats if t)
    gv = cq.get_variance(op, circ, initial_statevector=init)
    ctx.check("variance_exact", abs(complex(gv) - var_exact) < 1e-7, "exact-mode variance differs from sum c_i^2 (1-<P_i>^2)",
              lambda: dict(wit_base, got=complex(gv), expected=var_exact))
    ge = cq.get_standard_error(op, circ, initial_statevector=init)
    ctx.check("variance_exact", ge == 0, "standard error without shots must be 0", lambda: dict(wit_base, got=ge))

    # sampled paths
    if i % 4 == 0 and ng > 0:
        n_shots = pr.choice([400, 10000])
        sig = sigma_bound(stats, n_shots)
        for name, be, mon in (("cirq", get_backend("cirq", n_shots=n_shots), "cirq_sampled"),
                              ("generic", get_backend(generic_backend_class(), n_shots=n_shots), "generic_sampled")):
            np.random.seed(s)
            if name == "generic":
                # get_expectation_value with shots takes the frequency route on every backend; the sampled variant of
                # the statevector route is reached by calling it directly
                got = be._get_expectation_value_from_statevector(op, circ, initial_statevector=init) if not cplx else None
                if got is None:
                    continue
            else:
                got = be.get_expectation_value(op, circ, initial_statevector=init)
            bound = 6 * sig * (math.sqrt(2) if cplx else 1) + 1e-9
            ctx.check(mon, abs(complex(got) - exact) <= bound,
                      f"{name}: sampled estimate is {abs(complex(got) - exact) / max(sig, 1e-300):.1f} sigma from the exact value",
                      lambda: dict(wit_base, n_shots=n_shots, got=complex(got), expected=exact, sigma=sig, backend=name))
        if not cplx:
            be = get_backend("cirq", n_shots=n_shots)
            np.random.seed(s + 1)
            gv = be.get_variance(op, circ, initial_statevector=init)
            tol = 1e-9
            for t, c, e in stats:
                if t:
                    d = 6 * math.sqrt(max(0.0, 1 - e * e) / n_shots)
                    tol += abs(c) ** 2 * (2 * abs(e) * d + d * d)
            ctx.check("std_error_sampled", abs(gv - var_exact) <= tol,
                      "sampled variance is not that of sampling the exact distribution",
                      lambda: dict(wit_base, n_shots=n_shots, got=gv, expected=var_exact, tolerance=tol))
            np.random.seed(s + 2)
            gs = be.get_standard_error(op, circ, initial_statevector=init)
            lo = math.sqrt(max(0.0, var_exact - tol) / n_shots)
            hi = math.sqrt((var_exact + tol) / n_shots)
            ctx.check("std_error_sampled", lo - 1e-12 <= gs <= hi + 1e-12,
                      "reported standard error is not sqrt(variance/n_shots) of the exact distribution",
                      lambda: dict(wit_base, n_shots=n_shots, got=gs, expected=math.sqrt(var_exact / n_shots)))


def run_sympy(case, ctx):
    from tangelo.linq import get_backend
    rng, pr, s = case_rng(ctx.seed, "C02", "sympy", case["i"])
    from props.c01 import SYMPY_NAMES
    n = pr.randint(1, 3)
    gates = gen.random_gates(pr, n, pr.randint(1, 4), names=SYMPY_NAMES, max_controls=1, hostile=0.2)
    terms = gen.random_qubit_terms(pr, n, pr.randint(1, 4), complex_coeffs=(case["i"] % 2 == 1))
    op = gen.to_qubit_operator(terms)
    terms = gen.terms_of(op)
    circ = gen.to_circuit(gates, n_qubits=n)
    be = get_backend("sympy")
    got = be.get_expectation_value(op, circ)
    exact = dense_expectation(terms, refsim.run(gates, n), n)
    ctx.check("sympy", abs(complex(got) - exact) < 1e-6, "sympy get_expectation_value differs from <psi|H|psi>",
              lambda: {"gates": gates, "terms": [[list(map(list, t)), c] for t, c in terms.items()], "got": complex(got), "expected": exact})
    if gen.nontrivial_circuit(gates) and len(terms) >= 2:
        ctx.nontrivial(("sympy", gates, sorted(map(repr, terms.items()))))


def run_reuse(case, ctx):
    """One backend object and one operator object over a history of calls: the operator is modified in place between evaluations
    (+= term, *= scalar, direct assignment into .terms) and the circuit changes too; every value is compared with the dense one."""
    from tangelo.linq import get_backend
    from tangelo.toolboxes.operators import QubitOperator
    rng, pr, s = case_rng(ctx.seed, "C02", "reuse", case["i"])
    n = pr.randint(1, 4)
    be = get_backend("cirq")
    terms = gen.random_qubit_terms(pr, n, pr.randint(1, 4))
    op = gen.to_qubit_operator(terms)
    gates = gen.random_gates(pr, n, pr.randint(1, 8), hostile=0.2)
    circ = gen.to_circuit(gates, n_qubits=n)
    hist = []
    for step in range(pr.randint(3, 7)):
        what = pr.choice(["same", "iadd", "imul", "assign", "new_circuit", "add_gate"])
        if what == "iadd":
            extra = gen.to_qubit_operator(gen.random_qubit_terms(pr, n, pr.randint(1, 2), identity=False))
            op += extra
        elif what == "imul":
            op *= pr.choice([-2.0, 0.5, 3])
        elif what == "assign":
            t = tuple((q, pr.choice("XYZ")) for q in sorted(pr.sample(range(n), pr.randint(1, n))))
            op.terms[t] = pr.uniform(-1.5, 1.5)
        elif what == "new_circuit":
            gates = gen.random_gates(pr, n, pr.randint(1, 8), hostile=0.2)
            circ = gen.to_circuit(gates, n_qubits=n)
        elif what == "add_gate":
            g = None
            while g is None:
                g = gen.random_gate(pr, n, hostile=0.2)
            gates = list(gates) + [g]
            circ.add_gate(gen.to_gate(g))
        hist.append(what)
        cur = gen.terms_of(op)
        psi = refsim.run(gates, n)
        want = dense_expectation(cur, psi, n)
        got = be.get_expectation_value(op, circ)
        ctx.check("operator_and_backend_reuse", abs(complex(got) - want) < 1e-7 * (1 + sum(abs(c) for c in cur.values())),
                  "expectation value on a re-used backend with an operator object modified in place differs from <psi|H|psi>",
                  lambda: {"n": n, "history": hist, "terms_now": [[list(map(list, t)), c] for t, c in cur.items()], "gates": gates, "got": got, "expected": want})
    ctx.nontrivial(("reuse", n, repr(hist), case["i"]))
    ctx.sample({"sub": "reuse", "n": n, "history": hist})


def run_oneterm(case, ctx):
    """get_expectation_value_from_frequencies_oneterm / variance on arbitrary histograms vs direct parity sums."""
    from tangelo.linq.target.backend import get_expectation_value_from_frequencies_oneterm as ev1, \
        get_variance_from_frequencies_oneterm as var1
    rng, pr, s = case_rng(ctx.seed, "C02", "oneterm", case["i"])
    for _ in range(10):
        n = pr.randint(1, 7)
        keys = {"".join(pr.choice("01") for _ in range(n)) for _ in range(pr.randint(1, 12))}
        w = [pr.random() for _ in keys]
        tot = sum(w)
        freqs = {k: x / tot for k, x in zip(sorted(keys), w)}
        idxs = sorted(pr.sample(range(n), pr.randint(0, n)))
        term = tuple((j, pr.choice("XYZ")) for j in idxs)
        e = sum(f * (-1) ** sum(int(k[j]) for j in idxs) for k, f in freqs.items())
        v = sum(f * (e - (-1) ** sum(int(k[j]) for j in idxs)) ** 2 for k, f in freqs.items())
        ctx.check("oneterm_parity", abs(ev1(term, freqs) - e) < 1e-12 and abs(var1(term, freqs) - v) < 1e-12,
                  "one-term expectation/variance from frequencies differs from the parity sum",
                  lambda: {"term": term, "freqs": freqs, "got": [ev1(term, freqs), var1(term, freqs)], "expected": [e, v]})
        ctx.nontrivial(("oneterm", term, sorted(freqs.items())))


def run_bigshots(case, ctx):
    from tangelo.linq import get_backend
    rng, pr, s = case_rng(ctx.seed, "C02", "bigshots", case["i"])
    n = 2
    gates = gen.random_gates(pr, n, 4, names=["RY", "RX", "CNOT", "H"], max_controls=1, hostile=0.0)
    terms = gen.random_qubit_terms(pr, n, 3, identity=False)
    op = gen.to_qubit_operator(terms)
    terms = gen.terms_of(op)
    circ = gen.to_circuit(gates, n_qubits=n)
    psi = refsim.run(gates, n)
    exact = dense_expectation(terms, psi, n)
    stats = term_stats(terms, psi, n)
    n_shots = 10 ** 7 + pr.choice([3, 1000003, 2 * 10 ** 6 + 1])
    be = get_backend("cirq", n_shots=n_shots)
    np.random.seed(s)
    freqs, _ = be.simulate(circ)
    probs = {refsim.bitstring(i, n): float(p) for i, p in enumerate(refsim.probabilities(psi))}
    tot = sum(freqs.values())
    dev = max(abs(freqs.get(k, 0) - probs[k]) / max(math.sqrt(probs[k] * (1 - probs[k]) / n_shots), 1e-12) for k in probs if probs[k] > 1e-12)
    ctx.check("cirq_sampled", abs(tot - 1) < 1e-9 and dev < 7,
              f"frequencies sampled with n_shots={n_shots} (several sampler chunks) are not normalised / not the exact distribution (sum={tot}, max deviation {dev:.1f} sigma)",
              lambda: {"gates": gates, "n_shots": n_shots, "freqs": freqs, "exact": probs})
    np.random.seed(s + 1)
    got = be.get_expectation_value(op, circ)
    sig = sigma_bound(stats, n_shots)
    ctx.check("cirq_sampled", abs(complex(got) - exact) <= 6 * sig + 1e-9, f"expectation value with n_shots={n_shots} is {abs(complex(got) - exact) / max(sig, 1e-300):.1f} sigma off",
              lambda: {"gates": gates, "n_shots": n_shots, "got": complex(got), "expected": exact})
    ctx.nontrivial(("bigshots", gates, n_shots))


def run_repo_tests(case, ctx):
    """The repository's own tests as an additional workload: every observed call is compared with the reference model (vlib.livemon)."""
    from vlib.harness import repo_tests_case
    repo_tests_case(case, ctx, ['tangelo/linq/tests/test_simulator.py', 'tangelo/algorithms/variational/tests/test_vqe_solver.py', '-k', 'h2 or expect'],
                    ['tangelo/linq/tests', 'tangelo/toolboxes/ansatz_generator/tests', 'tangelo/toolboxes/measurements/tests', 'tangelo/algorithms/variational/tests/test_vqe_solver.py'],
                    only=('expectation_',), semantic=('C02',))


def run_case(case, ctx):
    {"pair": run_pair, "sympy": run_sympy, "oneterm": run_oneterm, "bigshots": run_bigshots, "reuse": run_reuse, "repo_tests": run_repo_tests}[case["sub"]](case, ctx)
