"""C15 - problem-decomposition energies satisfy their defining identities.

Monitor shape: identity monitors - the oracles are the telescoping / exact-embedding /
electron-count / relabelling / inclusion-exclusion identities themselves plus independent exact
energies (FCISolver, CCSDSolver, mean field) of the whole system.
"""
import itertools
import math
import warnings

import numpy as np

from vlib import chem
from vlib.harness import case_rng

PROPERTY = "C15"
RULE = ("cases: ONIOM on hydrogen chains / clusters with solver pairs from {HF, CCSD, FCI}, model fragment by count or index list in any "
        "order, links with factors in (0.5, 1.2), H and CH3 caps; DMET on H2 [1,1], H4 chains / rings [2,2], [1,1,1,1], nested and "
        "permuted fragment lists, H6 [3,3] / [2,2,2] (thorough), meta-Lowdin and NAO localisation, fci and ccsd fragment solvers; "
        "method-of-increments: seeded synthetic complete result dictionaries for 1-5 centres incl. corrections and user-provided "
        "energies. distinct = hash(case inputs); non-trivial = model with >= 2 atoms / >= 2 fragments / >= 2 centres")
ASSUMPTIONS = ["exact references: Tangelo's FCISolver / CCSDSolver / mean-field energy of the whole system (validated against own FCI in C04)",
               "DMET exactness is only claimed with the fci fragment solver and a fragment+bath space spanning all orbitals",
               "single-fragment DMET is evaluated through _oneshot_loop(0.0): scipy's secant refuses an identically-zero residual"]
ANCHORS = [
    ("tangelo/problem_decomposition/oniom/oniom_problem_decomposition.py", "distribute_atoms,simulate", "atom distribution to fragments"),
    ("tangelo/problem_decomposition/oniom/_helpers/helper_classes.py", "simulate", "sign of the low-level model energy"),
    ("tangelo/problem_decomposition/oniom/_helpers/helper_classes.py", "relink", "cap placement and group alignment"),
    ("tangelo/problem_decomposition/dmet/dmet_problem_decomposition.py", "__init__", "atom re-ordering for nested fragment lists"),
    ("tangelo/problem_decomposition/dmet/dmet_problem_decomposition.py", "_build_scf_fragments,_oneshot_loop", "bath construction, chemical-potential residual"),
    ("tangelo/problem_decomposition/incremental/incremental_helper.py", "mi_summation", "recursive subtraction of lower-order increments"),
]
REQUIRED = {"oniom_identical_levels": 4, "oniom_whole_system_model": 4, "link_placement": 40, "dmet_exact_embedding": 2, "dmet_electron_count": 4, "dmet_relabelling": 2, "mi_full_order": 500}
BUDGET = {"quick": 500, "thorough": 3000}


def cases(tier, seed):
    out = [{"sub": "oniom", "i": i} for i in range(10 if tier == "quick" else 320)]
    out += [{"sub": "link", "i": i} for i in range(8 if tier == "quick" else 1000)]
    out += [{"sub": "dmet", "i": i} for i in range(14 if tier == "quick" else 280)]
    out += [{"sub": "mi", "i": i} for i in range(16 if tier == "quick" else 2000)]
    return out


def run_oniom(case, ctx):
    from tangelo.problem_decomposition import ONIOMProblemDecomposition
    from tangelo.problem_decomposition.oniom import Fragment, Link
    from tangelo import SecondQuantizedMolecule
    from tangelo.algorithms.classical import FCISolver, CCSDSolver
    rng, pr, s = case_rng(ctx.seed, "C15", "oniom", case["i"])
    n = pr.choice([4, 4, 6])
    geom = chem.chain(n, pr.uniform(0.8, 1.3)) if pr.random() < 0.6 else chem.cluster(rng, n, box=2.4, dmin=0.7)
    geom = [(a, tuple(float(x) for x in p)) for a, p in geom]
    low, high = pr.choice([("HF", "CCSD"), ("HF", "FCI"), ("CCSD", "FCI"), ("HF", "HF"), ("CCSD", "CCSD")])
    if n == 6 and "FCI" in (low, high):
        high = "CCSD" if low != "CCSD" else "CCSD"
    # callers commonly hand ONE options dictionary to every layer of every fragment: then dict(...) copies are not made here; with a
    # non-default basis every layer must still be computed in that basis
    shared = pr.random() < 0.5
    basis = pr.choice(["3-21g", "6-31g"]) if (n == 4 and (shared or pr.random() < 0.2)) else "sto-3g"
    opt = {"basis": basis}
    mkopt = (lambda: opt) if shared else (lambda: dict(opt))
    ctx.tab("oniom_options", f"{basis}|{'one shared dict' if shared else 'separate dicts'}")

    def energy(level, g):
        with warnings.catch_warnings():
            warnings.simplefilter("ignore")
            mol = SecondQuantizedMolecule(g, q=0, spin=0, basis=basis, frozen_orbitals=None)
            if level == "HF":
                return mol.mf_energy
            return (FCISolver if level == "FCI" else CCSDSolver)(mol).simulate()
    wit = {"geometry": geom, "low": low, "high": high}
    with warnings.catch_warnings():
        warnings.simplefilter("ignore")
        # (1) model fragment treated at identical high and low levels -> low-level energy of the whole system
        k = pr.choice([2, 2, 4]) if n >= 4 else 2
        if pr.random() < 0.5:
            sel = k
            model_idx = list(range(k))
        else:
            model_idx = sorted(pr.sample(range(n), k))
            pr.shuffle(model_idx)
            sel = list(model_idx)
        links = None
        if pr.random() < 0.6:
            inside = model_idx[0]
            outside = [j for j in range(n) if j not in model_idx]
            if outside:
                # an odd-electron model needs a cap to stay closed shell; with a cap on an even model the identity must still hold,
                # so use two caps to keep the electron count even
                o1 = outside[0]
                links = [Link(inside, o1, pr.uniform(0.5, 1.2), "H")]
                if len(outside) > 1:
                    links.append(Link(model_idx[-1], outside[-1], pr.uniform(0.5, 1.2), "H"))
                else:
                    links = None
        system = Fragment(solver_low=low, options_low=mkopt())
        model = Fragment(solver_low=high, options_low=mkopt(), solver_high=high, options_high=mkopt(), selected_atoms=sel, broken_links=links)
        try:
            e = ONIOMProblemDecomposition({"geometry": [tuple(x) for x in geom], "fragments": [system, model]}).simulate()
            e_sys = energy(low, geom)
            ctx.check("oniom_identical_levels", abs(e - e_sys) < 1e-7,
                      f"ONIOM with the model treated at identical levels gives {e:.9f}, low-level energy of the whole system is {e_sys:.9f}",
                      dict(wit, selected=sel, links=bool(links), got=e, expected=e_sys))
        except ValueError as ex:
            if "spin" in str(ex).lower() or "electron" in str(ex).lower():
                ctx.note("oniom_model_open_shell_skipped")
            else:
                raise
        # (2) model = whole system (atoms listed in any order) -> high-level energy of the whole system
        order = list(range(n))
        pr.shuffle(order)
        sel2 = pr.choice([order, order, n, None])      # None is documented as "the whole system"
        system = Fragment(solver_low=low, options_low=mkopt())
        model = Fragment(solver_low=low, options_low=mkopt(), solver_high=high, options_high=mkopt(), selected_atoms=sel2)
        e = ONIOMProblemDecomposition({"geometry": [tuple(x) for x in geom], "fragments": [system, model]}).simulate()
        e_high = energy(high, geom)
        ctx.check("oniom_whole_system_model", abs(e - e_high) < 2e-6,
                  f"ONIOM with the whole system as model gives {e:.9f}, high-level energy of the whole system is {e_high:.9f}",
                  dict(wit, selected=sel2, got=e, expected=e_high, basis=basis, shared_options=shared))
    ctx.nontrivial(("oniom", repr(geom), low, high, repr(sel)))
    ctx.sample({"sub": "oniom", "n_atoms": n, "low": low, "high": high, "model": sel, "links": bool(links)})


def kabsch(P, Q):
    """Rotation R and translation t with R P_i + t = Q_i (least squares)."""
    Pc, Qc = P.mean(axis=0), Q.mean(axis=0)
    H = (P - Pc).T @ (Q - Qc)
    U, S, Vt = np.linalg.svd(H)
    d = np.sign(np.linalg.det(Vt.T @ U.T))
    D = np.diag([1, 1, d])
    R = Vt.T @ D @ U.T
    return R, Qc - R @ Pc


def run_link(case, ctx):
    from tangelo.problem_decomposition.oniom import Link
    from tangelo.problem_decomposition.oniom._helpers.helper_classes import chemical_groups
    rng, pr, s = case_rng(ctx.seed, "C15", "link", case["i"])
    for _ in range(8):
        n = pr.randint(2, 7)
        geom = [(pr.choice(["C", "H", "N", "O"]), tuple(float(x) for x in rng.uniform(-3, 3, size=3))) for _ in range(n)]
        a, b = pr.sample(range(n), 2)
        f = pr.uniform(0.5, 1.2)
        sp = pr.choice(["H", "H", "F", "Cl", "CH3"] + [g for g in chemical_groups if g != "CH3"][:2])
        before = [tuple(x) for x in geom]
        try:
            link = Link(a, b, f, sp)
        except ValueError:
            continue
        out = link.relink(geom)
        A, B = np.array(geom[a][1]), np.array(geom[b][1])
        target = A + f * (B - A)
        first = np.array(out[0][1])
        ok = np.linalg.norm(first - target) < 1e-9
        wit = {"geometry": geom, "staying": a, "leaving": b, "factor": f, "species": sp, "result": out}
        ctx.check("link_placement", ok, f"link atom placed at {first.tolist()}, expected staying + f*(leaving - staying) = {target.tolist()}", wit)
        ctx.check("link_placement", [tuple(x) for x in geom] == before, "relink modified the geometry passed in", wit)
        if len(out) > 1:
            # chemical group: rigid image of the template, with the template's X -> first-atom axis along the broken bond
            tmpl = link.species
            P = np.array([x[1] for x in tmpl if x[0].upper() != "X"], dtype=float)
            Q = np.array([x[1] for x in out], dtype=float)
            dP = np.linalg.norm(P[:, None] - P[None], axis=-1)
            dQ = np.linalg.norm(Q[:, None] - Q[None], axis=-1)
            rigid = np.max(np.abs(dP - dQ)) < 1e-8 and [x[0] for x in out] == [x[0] for x in tmpl if x[0].upper() != "X"]
            R, t = kabsch(P, Q)
            ximg = R @ np.array(tmpl[0][1], dtype=float) + t
            axis = Q[0] - ximg
            bond = B - A
            cosang = float(np.dot(axis, bond) / (np.linalg.norm(axis) * np.linalg.norm(bond)))
            ctx.check("link_placement", rigid and cosang > 1 - 1e-8, f"capping group is distorted or not aligned with the broken bond (cos = {cosang})",
                      dict(wit, rigid=bool(rigid), cos=cosang))
        ctx.nontrivial(("link", repr(geom), a, b, f, sp))
    ctx.sample({"sub": "link", "species": sp, "factor": f})


DMET_CASES = [
    # (label, geometry builder, fragment_atoms, exact?)
    ("H2_11", lambda pr: chem.chain(2, pr.uniform(0.6, 1.6)), [1, 1], True),
    ("H4_22", lambda pr: chem.chain(4, pr.uniform(0.8, 1.4)), [2, 2], True),
    ("H4ring_22_nested", lambda pr: [(a, (x * (1.0 + 0.3 * (k % 2)) + 0.07 * k, y * (1.0 + 0.3 * (k % 2)), z)) for k, (a, (x, y, z)) in enumerate(chem.ring(4, pr.uniform(0.8, 1.2)))],
     [[0, 1], [2, 3]], True),
    ("H4_1111", lambda pr: chem.chain(4, pr.uniform(0.8, 1.3)), [1, 1, 1, 1], False),
    ("H4_4", lambda pr: chem.chain(4, pr.uniform(0.8, 1.3)), [4], True),
    ("H4_13", lambda pr: chem.chain(4, pr.uniform(0.8, 1.3)), [1, 3], False),
    ("H6_33", lambda pr: chem.chain(6, pr.uniform(0.9, 1.3)), [3, 3], True),
    ("H6_222", lambda pr: [("H", (0.0, 0.0, 0.0 + 1.9 * (k // 2) + pr.choice([0.74, 0.8]) * (k % 2))) for k in range(6)], [2, 2, 2], False),
]


def run_dmet(case, ctx):
    from tangelo import SecondQuantizedMolecule
    from tangelo.problem_decomposition import DMETProblemDecomposition
    from tangelo.problem_decomposition.dmet import Localization
    from tangelo.algorithms.classical import FCISolver
    rng, pr, s = case_rng(ctx.seed, "C15", "dmet", case["i"])
    pool = (DMET_CASES[:6] + [DMET_CASES[7]]) if ctx.tier == "quick" else DMET_CASES
    label, gb, frags, exact = pool[case["i"] % len(pool)]
    geom = [(a, tuple(float(x) for x in p)) for a, p in gb(pr)]
    loc = pr.choice([Localization.meta_lowdin, Localization.nao])
    solver = "fci" if (exact or pr.random() < 0.5) else "ccsd"
    wit = {"case": label, "geometry": geom, "fragments": frags, "localization": str(loc), "solver": solver}
    with warnings.catch_warnings():
        warnings.simplefilter("ignore")
        mol = SecondQuantizedMolecule(geom, q=0, spin=0, basis="sto-3g", frozen_orbitals=None)
        n_el = mol.n_electrons

        def make(m, fr):
            d = DMETProblemDecomposition({"molecule": m, "fragment_atoms": fr, "fragment_solvers": solver, "electron_localization": loc, "verbose": False})
            d.build()
            return d
        d = make(mol, frags)
        single = (len(frags) == 1)
        if single:
            res = d._oneshot_loop(0.0, save_results=True)
            e = d.dmet_energy
            mu = 0.0
        else:
            try:
                e = d.simulate()
                mu = d.chemical_potential
            except RuntimeError as ex:
                # scipy's secant cannot handle a residual that is identically zero (exact embeddings): evaluate at mu = 0
                if "Failed to converge" not in str(ex):
                    raise
                ctx.note("secant_refused_zero_residual")
                mu = 0.0
                d._oneshot_loop(mu, save_results=True)
                e = d.dmet_energy
            res = d._oneshot_loop(mu)
        ctx.check("dmet_electron_count", abs(res) < 1e-5, f"fragment electron numbers do not sum to the total at the converged chemical potential (residual {res})",
                  dict(wit, residual=float(np.real(res)), chemical_potential=float(np.real(mu))))
        # the exactness clause applies when fragment + bath spans the whole orbital space: read the embedding size off the real objects
        spans = all(fr[6].shape[0] == mol.n_mos for fr in d._build_scf_fragments(float(np.real(mu))))
        if exact and not spans:
            ctx.note("embedding_does_not_span_all_orbitals")
        if exact and spans and solver == "fci":
            e_fci = FCISolver(mol).simulate()
            ctx.check("dmet_exact_embedding", abs(e - e_fci) < 1e-6, f"DMET energy {e:.9f} with fragment+bath spanning all orbitals differs from the full-CI energy {e_fci:.9f}",
                      dict(wit, dmet=float(e), fci=float(e_fci)))
        # relabelling: permute the atoms and pass the corresponding nested fragment lists
        if not single and case["i"] % 2 == 0:
            n = len(geom)
            perm = list(range(n))
            for _ in range(50):
                pr.shuffle(perm)          # new position k holds old atom perm[k]
                if n < 4 or any(perm[perm[k]] != k for k in range(n)):
                    break                 # prefer permutations that are not their own inverse
            geom2 = [geom[p] for p in perm]
            pos = {old: new for new, old in enumerate(perm)}
            if all(isinstance(x, int) for x in frags):
                blocks, k0 = [], 0
                for c in frags:
                    blocks.append(list(range(k0, k0 + c)))
                    k0 += c
            else:
                blocks = [list(b) for b in frags]
            frags2 = [[pos[a] for a in b] for b in blocks]
            pr.shuffle(frags2)
            mol2 = SecondQuantizedMolecule(geom2, q=0, spin=0, basis="sto-3g", frozen_orbitals=None)
            d2 = make(mol2, frags2)
            try:
                e2 = d2.simulate()
            except RuntimeError as ex:
                if "Failed to converge" not in str(ex):
                    raise
                d2._oneshot_loop(0.0, save_results=True)
                e2 = d2.dmet_energy
            ctx.check("dmet_relabelling", abs(e2 - e) < 1e-6, f"DMET energy changes under relabelling of the atoms ({e:.9f} -> {e2:.9f})",
                      dict(wit, permutation=perm, fragments_relabelled=frags2, before=float(e), after=float(e2)))
    ctx.nontrivial(("dmet", label, repr(geom), str(loc), solver))
    ctx.sample({"sub": "dmet", "case": label, "solver": solver, "localization": str(loc), "energy": float(e)})
    ctx.tab("dmet_case", f"{label}|{solver}")


def run_mi(case, ctx):
    from tangelo.problem_decomposition.incremental.incremental_helper import MethodOfIncrementsHelper
    rng, pr, s = case_rng(ctx.seed, "C15", "mi", case["i"])
    for _ in range(40):
        m = pr.randint(1, 5)
        e_mf = pr.uniform(-80, -1)
        sub = {}
        handle = 1000
        energies = {}
        for k in range(1, m + 1):
            sub[str(k)] = {}
            for comb in itertools.combinations(range(m), k):
                fid = str(comb)
                e_c = -abs(pr.gauss(0, 0.2)) * k
                corr = pr.choice([0.0, 0.0, -abs(pr.gauss(0, 0.01))])
                handle += 1
                e_tot = e_mf + e_c + corr
                energies[fid] = (e_tot, corr)
                sub[str(k)][fid] = {"energy_total": e_tot, "energy_correlation": e_c + corr, "correction": corr, "epsilon": 0.0,
                                    "problem_handle": handle, "frozen_orbitals_truncated": [], "complete_orbital_space": list(range(2 * m))}
        full_id = str(tuple(range(m)))
        res = {"energy_total": energies[full_id][0], "energy_correlation": energies[full_id][0] - e_mf, "subproblem_data": sub}
        import copy
        helper = MethodOfIncrementsHelper(full_result=copy.deepcopy(res))
        got = helper.mi_summation()
        want = energies[full_id][0]
        ctx.check("mi_full_order", abs(got - want) < 1e-9, f"increments summed to full order ({m} centres) give {got}, energy of the complete fragment is {want}",
                  {"centres": m, "got": got, "expected": want, "subproblem_data": sub})
        # user-provided energies replace the stored ones (the stored correction of that fragment is added back)
        upd = {}
        for fid in pr.sample(sorted(energies), pr.randint(1, len(energies))):
            upd[fid] = energies[fid][0] - energies[fid][1] + pr.uniform(-0.05, 0.05)
        got2 = helper.mi_summation(user_provided_energies=dict(upd))
        want2 = (upd[full_id] + energies[full_id][1]) if full_id in upd else energies[full_id][0]
        ctx.check("mi_full_order", abs(got2 - want2) < 1e-9, f"with user-provided energies the full-order sum is {got2}, complete fragment has {want2}",
                  {"centres": m, "user_provided": upd, "got": got2, "expected": want2})
        if m >= 2:
            ctx.nontrivial(("mi", m, round(e_mf, 9), tuple(sorted((k, round(v[0], 9)) for k, v in energies.items()))))
    ctx.sample({"sub": "mi", "centres": m, "fragments": len(energies)})


def run_case(case, ctx):
    try:
        {"oniom": run_oniom, "link": run_link, "dmet": run_dmet, "mi": run_mi}[case["sub"]](case, ctx)
    except ValueError as e:
        # a refusal, not a result: Tangelo raises when the mean-field calculation of a (random, stretched) geometry does not converge
        if "did not converge" in str(e):
            ctx.note("scf_not_converged_refused")
            return
        raise
