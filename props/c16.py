"""C16 - operator arithmetic returns correct values and never mutates operands.

Monitor shape: reference-model monitor + operand-snapshot invariant + aliasing-history checker.
Real binary operators of FermionOperator / QubitOperator / QubitHamiltonian / MultiformOperator are
invoked on shared operand objects; before and after every call the operands' term dictionaries are
snapshotted, and the result is compared with the same operation carried out on dense matrices
(vlib.fock for fermions, dense Pauli algebra for qubits).
"""
import copy
import itertools
import math

import numpy as np

from vlib import fock, gen, refsim
from vlib.harness import case_rng

PROPERTY = "C16"
RULE = ("cases = seeded operand pools of 2-4 operators (Tangelo FermionOperator, openfermion FermionOperator, QubitOperator, "
        "QubitHamiltonian with/without attributes, python/numpy/complex scalars); single operations over {+,-,*,/,**,neg,==} with "
        "the object on either side, and aliasing chains of 2-6 successive operations on the shared pool with a shadow dense "
        "model; MultiformOperator products / collapse / commutation on random Pauli operators. distinct = hash(pool, operation "
        "sequence); non-trivial = both operands have >= 2 terms")
ASSUMPTIONS = ["vlib.fock matrices (<= 4 modes) and dense Pauli matrices (<= 4 qubits) are the algebra oracle",
               "do_commute oracle: True must imply a vanishing commutator, and term-wise commuting operators must give True; "
               "term_resolved[i] must equal 'term i commutes with every term of B'"]
ANCHORS = [
    ("tangelo/toolboxes/operators/operators.py", "__imul__,__mul__,__add__,__radd__,__isub__,__sub__,__rsub__", "FermionOperator binary operators"),
    ("tangelo/toolboxes/operators/operators.py", "__iadd__,__eq__", "QubitHamiltonian addition / comparison compatibility checks"),
    ("tangelo/toolboxes/operators/multiformoperator.py", "from_qubitop,__mul__,collapse", "integer/binary encodings, phase table, duplicate collapse"),
    ("tangelo/toolboxes/operators/multiformoperator.py", "do_commute", "symplectic commutation test"),
]
REQUIRED = {"multiform_history": 60, "live_observations_total": 5, "fermion_value": 196, "fermion_operands_unchanged": 300, "qubit_value": 111, "qubit_operands_unchanged": 200, "chain_shadow": 200, "hamiltonian_with_plain_operator": 17, "multiform_product": 60, "multiform_collapse": 60, "do_commute": 64, "do_commute_term_resolved": 64}
BUDGET = {"quick": 240, "thorough": 2400}
TOL = 1e-9
NM = 3   # fermionic modes for dense algebra (8x8)
NQ = 3


def cases(tier, seed):
    n = 160 if tier == "quick" else 30000
    out = [{"sub": "repo_tests", "tier": tier}]
    out += [{"sub": "fermion", "i": i} for i in range(n)]
    out += [{"sub": "qubit", "i": i} for i in range(n)]
    out += [{"sub": "multiform", "i": i} for i in range(n)]
    out += [{"sub": "multiform_wide", "i": i} for i in range(n // 2)]
    out += [{"sub": "multiform_history", "i": i} for i in range(n // 2)]
    out += [{"sub": "multiform_long", "i": i} for i in range(3 if tier == "quick" else 40)]
    return out


# ---------------------------------------------------------------------------------------------

def rand_fterms(pr, nm, max_terms=3, cplx=True):
    terms = {}
    for _ in range(pr.randint(1, max_terms)):
        k = pr.randint(0, 3)
        t = tuple((pr.randrange(nm), pr.randint(0, 1)) for _ in range(k))
        c = pr.uniform(-2, 2)
        if cplx and pr.random() < 0.3:
            c = complex(c, pr.uniform(-2, 2))
        terms[t] = c
    return terms


def mk_fermion(kind, terms, attrs):
    import openfermion as of
    from tangelo.toolboxes.operators import FermionOperator as TF
    if kind == "of":
        op = of.FermionOperator()
    else:
        op = TF(n_spinorbitals=attrs[0], n_electrons=attrs[1], spin=attrs[2])
    for t, c in terms.items():
        op.terms[t] = c
    return op


def fmat(op, nm=NM):
    return fock.fermion_terms_matrix(dict(op.terms), nm)


def snap(op):
    if isinstance(op, (int, float, complex, np.number)):
        return ("scalar", repr(op))
    extra = tuple((k, repr(getattr(op, k))) for k in ("n_spinorbitals", "n_electrons", "spin", "mapping", "up_then_down") if hasattr(op, k))
    return (type(op).__name__, tuple(sorted((repr(t), repr(c)) for t, c in op.terms.items())), extra)


def rand_scalar(pr):
    # numpy scalar types of every kind COEFFICIENT_TYPES admits (np.integer includes the unsigned ones, whose unary minus wraps around);
    # (no single-precision floats: under NumPy 2 promotion a float32 scalar legitimately yields float32 coefficients)
    return pr.choice([2, -3, 0.5, -1.25, 1.5 + 0.5j, np.float64(0.75), np.int64(2), 3.0,
                      np.uint8(3), np.uint64(2), np.uint16(5), np.int32(-2), np.int8(3), np.complex128(0.5 - 1.5j)])


F_OPS = ["a+b", "a-b", "a*b", "s*a", "a*s", "-a", "s-a", "s+a", "a+s", "a-s", "a/s", "a**2", "a==b", "a!=b", "a+=b", "a*=b", "a-=b", "a+=b", "a+=b", "a+b"]


def apply_op(opname, a, b, s):
    """Returns (result, expected-matrix-lambda, which operand may legitimately change: 'a' or None)"""
    if opname == "a+b":
        return a + b, lambda A, B: A + B, None
    if opname == "a-b":
        return a - b, lambda A, B: A - B, None
    if opname == "a*b":
        return a * b, lambda A, B: A @ B, None
    if opname == "s*a":
        return s * a, lambda A, B: s * A, None
    if opname == "a*s":
        return a * s, lambda A, B: s * A, None
    if opname == "-a":
        return -a, lambda A, B: -A, None
    if opname == "s-a":
        return s - a, lambda A, B: s * np.eye(len(A)) - A, None
    if opname == "s+a":
        return s + a, lambda A, B: s * np.eye(len(A)) + A, None
    if opname == "a+s":
        return a + s, lambda A, B: s * np.eye(len(A)) + A, None
    if opname == "a-s":
        return a - s, lambda A, B: A - s * np.eye(len(A)), None
    if opname == "a/s":
        return a / s, lambda A, B: A / s, None
    if opname == "a**2":
        return a ** 2, lambda A, B: A @ A, None
    if opname == "a+=b":
        a += b
        return a, lambda A, B: A + B, "a"
    if opname == "a-=b":
        a -= b
        return a, lambda A, B: A - B, "a"
    if opname == "a*=b":
        a *= b
        return a, lambda A, B: A @ B, "a"
    raise KeyError(opname)


def run_fermion(case, ctx):
    rng, pr, sd = case_rng(ctx.seed, "C16", "fermion", case["i"])
    attrs = pr.choice([(None, None, None), (None, None, None), (4, 2, 0)])
    kinds = [pr.choice(["tangelo", "tangelo", "of"]) for _ in range(3)]
    if attrs != (None, None, None):
        kinds = ["tangelo"] * 3   # mixing annotated Tangelo operators with bare openfermion ones is documented to raise
    pool_terms = [rand_fterms(pr, NM) for _ in range(3)]
    if pr.random() < 0.35:
        # an empty accumulator, as in  acc = FermionOperator(); acc += a; acc += b
        pool_terms[pr.randrange(3)] = {}
    pool = [mk_fermion(k, t, attrs) for k, t in zip(kinds, pool_terms)]
    shadow = [fmat(p) for p in pool]
    snaps = [snap(p) for p in pool]
    log = []
    steps = pr.randint(1, 6)
    big = all(len(t) >= 2 for t in pool_terms[:2])
    for step in range(steps):
        ia, ib = pr.randrange(3), pr.randrange(3)
        opname = pr.choice(F_OPS)
        s = rand_scalar(pr)
        a, b = pool[ia], pool[ib]
        if kinds[ia] == "of" and kinds[ib] == "of":
            continue  # pure openfermion arithmetic is not Tangelo's code
        if opname in ("a+=b", "a-=b", "a*=b") and kinds[ia] == "of":
            continue
        if opname in ("a+=b", "a-=b") and ia == ib:
            # x += x / x -= x run entirely inside openfermion's SymbolicOperator.__iadd__ (Tangelo only forwards), which iterates the dict it is
            # modifying and raises RuntimeError when a term cancels: not Tangelo's code (same exclusion as in the qubit-operator histories)
            ctx.note("inplace_on_itself_skipped")
            continue
        log.append([opname, ia, ib, s if "s" in opname.replace("==", "") else None])
        wit = lambda: {"pool": [[k, [[list(map(list, t)), c] for t, c in pt.items()]] for k, pt in zip(kinds, pool_terms)],
                       "attrs": attrs, "log": log}
        if opname in ("s*a", "a*s", "a/s") and kinds[ia] == "tangelo" and pr.random() < 0.3:
            # symbolic scalar (openfermion accepts sympy expressions as coefficients): value checked after substituting a number
            import sympy
            t = sympy.Symbol("t")
            t0 = 0.7
            log[-1][-1] = "sympy:t"
            r = t * a if opname == "s*a" else (a * t if opname == "a*s" else a / t)
            num = type(r)()
            for term, c in r.terms.items():
                num.terms[term] = complex(sympy.N(sympy.sympify(c).subs(t, t0)))
            exp = shadow[ia] / t0 if opname == "a/s" else t0 * shadow[ia]
            ctx.check("fermion_value", refsim.dist(fmat(num), exp) < 1e-8, f"result of {opname} with a symbolic scalar is not the algebraically correct operator", wit)
            ctx.tab("scalar_kind", "sympy")
        elif opname in ("a==b", "a!=b"):
            try:
                r = (a == b) if opname == "a==b" else (a != b)
            except TypeError:
                # openfermion refuses comparisons across unrelated classes
                ctx.note("eq_refused")
                continue
            same = refsim.dist(shadow[ia], shadow[ib]) < 1e-8
            # term-wise equality implies matrix equality; we only demand soundness of "equal"
            if opname == "a==b" and r:
                ctx.check("fermion_value", same, "== returned True for operators with different action", wit)
            if opname == "a!=b" and not r:
                ctx.check("fermion_value", same, "!= returned False for operators with different action", wit)
            ctx.ev("fermion_value")
        else:
            try:
                r, fexp, mut = apply_op(opname, a, b, s)
            except ZeroDivisionError:
                continue
            except RuntimeError as e:
                # documented refusal: operands whose n_spinorbitals / n_electrons / spin annotations differ (some results, e.g. of
                # division or negation, are bare operators)
                if "must be the same" in str(e) or "did not define" in str(e):
                    ctx.note("attribute_mismatch_refused")
                    log.pop()
                    continue
                raise
            exp = fexp(shadow[ia], shadow[ib])
            ctx.check("fermion_value", refsim.dist(fmat(r), exp) < 1e-8,
                      f"result of {opname} is not the algebraically correct operator", wit)
            if mut == "a":
                ok_identity = r is pool[ia] or True
                shadow[ia] = exp
                snaps[ia] = snap(pool[ia])
            elif pr.random() < 0.5:
                # put the result into the pool (aliasing chain): later operations use it as an operand
                k = pr.randrange(3)
                if r is not pool[ia] and r is not pool[ib]:
                    pool[k] = r
                    kinds[k] = "tangelo" if type(r).__module__.startswith("tangelo") else "of"
                    shadow[k] = exp
                    snaps[k] = snap(r)
        # every operand must be what the shadow says
        for j in range(3):
            now = snap(pool[j])
            ctx.check("fermion_operands_unchanged", now == snaps[j] and refsim.dist(fmat(pool[j]), shadow[j]) < 1e-8,
                      f"operand {j} was modified by {opname} (operands a={ia}, b={ib})",
                      lambda: dict(wit(), operand=j, before=snaps[j], after=now))
            if now != snaps[j]:
                snaps[j] = now
                shadow[j] = fmat(pool[j])
        ctx.ev("chain_shadow")
    if big and len(log) >= 1:
        ctx.nontrivial(("fermion", kinds, sorted(map(repr, pool_terms)), log))
    ctx.sample({"sub": "fermion", "kinds": kinds, "attrs": attrs, "log": log})


def mk_qubit(kind, terms, attrs):
    import openfermion as of
    from tangelo.toolboxes.operators import QubitOperator as TQ, QubitHamiltonian as TH
    if kind == "of":
        op = of.QubitOperator()
    elif kind == "tq":
        op = TQ()
    else:
        op = TH(mapping=attrs[0], up_then_down=attrs[1])
    for t, c in terms.items():
        op.terms[t] = c
    return op


def qmatop(op, nq=NQ):
    return refsim.qubit_operator_matrix({tuple(t): c for t, c in op.terms.items()}, nq)


Q_OPS = ["a+b", "a-b", "a*b", "s*a", "a*s", "-a", "a/s", "a**2", "a==b", "a+=b", "a-=b", "a*=b", "a+s", "s+a", "a-s"]


def run_qubit(case, ctx):
    rng, pr, sd = case_rng(ctx.seed, "C16", "qubit", case["i"])
    attrs = pr.choice([("JW", False), ("BK", True), (None, None), ("jw", False)])
    kinds = [pr.choice(["th", "th", "tq", "of"]) for _ in range(3)]
    pool_terms = [gen.random_qubit_terms(pr, NQ, pr.randint(1, 4), complex_coeffs=pr.random() < 0.3) for _ in range(3)]
    pool = [mk_qubit(k, t, attrs) for k, t in zip(kinds, pool_terms)]
    shadow = [qmatop(p) for p in pool]
    snaps = [snap(p) for p in pool]
    log = []
    for step in range(pr.randint(1, 6)):
        ia, ib = pr.randrange(3), pr.randrange(3)
        opname = pr.choice(Q_OPS)
        s = rand_scalar(pr)
        a, b = pool[ia], pool[ib]
        if kinds[ia] != "th" and kinds[ib] != "th":
            continue   # plain QubitOperator arithmetic is openfermion's code
        if opname in ("a+s", "s+a", "a-s"):
            continue   # openfermion QubitOperator does not define scalar addition
        if opname in ("a+=b", "a-=b", "a*=b") and ia == ib:
            # x += x and friends run entirely inside openfermion's SymbolicOperator (it iterates the dict it is modifying): not Tangelo's code
            ctx.note("inplace_on_itself_skipped")
            continue
        log.append([opname, ia, ib, s])
        wit = lambda: {"pool": [[k, [[list(map(list, t)), c] for t, c in pt.items()]] for k, pt in zip(kinds, pool_terms)],
                       "attrs": attrs, "log": log}
        plain = (kinds[ia] == "th") != (kinds[ib] == "th") and opname in ("a+b", "a-b", "a==b", "a+=b", "a-=b")
        if opname == "a==b":
            try:
                r = (a == b)
            except (AttributeError, TypeError) as e:
                ctx.check("hamiltonian_with_plain_operator", False,
                          f"comparing a QubitHamiltonian with a plain QubitOperator raised {type(e).__name__} although the attribute "
                          f"check is documented as skipped in that case", dict(wit(), error=str(e)))
                continue
            if plain:
                ctx.ev("hamiltonian_with_plain_operator")
            if r:
                ctx.check("qubit_value", refsim.dist(shadow[ia], shadow[ib]) < 1e-7, "== returned True for different operators", wit)
            else:
                ctx.ev("qubit_value")
        else:
            try:
                r, fexp, mut = apply_op(opname, a, b, s)
            except (AttributeError,) as e:
                ctx.check("hamiltonian_with_plain_operator", False,
                          f"{opname} between a QubitHamiltonian and a plain QubitOperator raised {type(e).__name__} although the attribute "
                          f"check is documented as skipped in that case", dict(wit(), error=str(e)))
                continue
            except TypeError as e:
                # openfermion refuses e.g. of.QubitOperator += subclass in some directions: not Tangelo's code
                ctx.note("type_refused")
                continue
            if plain:
                ctx.ev("hamiltonian_with_plain_operator")
            exp = fexp(shadow[ia], shadow[ib])
            ctx.check("qubit_value", refsim.dist(qmatop(r), exp) < 1e-8, f"result of {opname} is not the algebraically correct operator", wit)
            if mut == "a":
                shadow[ia] = exp
                snaps[ia] = snap(pool[ia])
            elif pr.random() < 0.5 and r is not pool[ia] and r is not pool[ib]:
                k = pr.randrange(3)
                pool[k] = r
                kinds[k] = {"QubitHamiltonian": "th", "QubitOperator": "tq"}.get(type(r).__name__, "of")
                if type(r).__module__.startswith("openfermion"):
                    kinds[k] = "of"
                shadow[k] = exp
                snaps[k] = snap(r)
        for j in range(3):
            now = snap(pool[j])
            ctx.check("qubit_operands_unchanged", now == snaps[j], f"operand {j} was modified by {opname} (a={ia}, b={ib})",
                      lambda: dict(wit(), operand=j, before=snaps[j], after=now))
            if now != snaps[j]:
                snaps[j] = now
                shadow[j] = qmatop(pool[j])
        ctx.ev("chain_shadow")
    # documented refusal: two annotated Hamiltonians with different mapping / ordering
    from tangelo.toolboxes.operators import QubitHamiltonian as TH
    h1 = TH("X0", 1.0, mapping="JW", up_then_down=False)
    h2 = TH("Z0", 1.0, mapping=pr.choice(["BK", "JW"]), up_then_down=pr.choice([True, False]))
    should_raise = (h2.mapping != "JW") or (h2.up_then_down is not False)
    try:
        h1 + h2
        raised = False
    except RuntimeError:
        raised = True
    ctx.check("hamiltonian_attribute_mismatch", raised == should_raise, "attribute mismatch handling of QubitHamiltonian addition is wrong",
              {"h2": [h2.mapping, h2.up_then_down], "raised": raised})
    # the in-place forms: a refused operation leaves the left operand as it was; an accepted one gives the algebraic result, also when both
    # operands are the same QubitHamiltonian object (Tangelo's own __isub__ / __iadd__ run before openfermion's)
    for sym in ("+=", "-="):
        ta_ = gen.random_qubit_terms(pr, NQ, pr.randint(1, 3))
        tb_ = gen.random_qubit_terms(pr, NQ, pr.randint(1, 3))
        ha, hb = mk_qubit("th", ta_, ("JW", False)), mk_qubit("th", tb_, (h2.mapping, h2.up_then_down))
        A0, B0, sa0, sb0 = qmatop(ha), qmatop(hb), snap(ha), snap(hb)
        try:
            if sym == "+=":
                ha += hb
            else:
                ha -= hb
            raised = False
        except RuntimeError:
            raised = True
        if raised:
            ctx.check("hamiltonian_attribute_mismatch", should_raise and snap(ha) == sa0 and snap(hb) == sb0,
                      f"a refused in-place {sym} between annotated Hamiltonians changed an operand (or was refused although the annotations agree)",
                      {"a": [[list(map(list, t)), c] for t, c in ta_.items()], "b": [[list(map(list, t)), c] for t, c in tb_.items()], "op": sym,
                       "left_after": snap(ha)})
        else:
            expm_ = A0 + B0 if sym == "+=" else A0 - B0
            ctx.check("qubit_value", (not should_raise) and refsim.dist(qmatop(ha), expm_) < 1e-8 and snap(hb) == sb0,
                      f"in-place {sym} between annotated Hamiltonians is wrong (or was accepted although the annotations differ)", {"op": sym})
    hs = mk_qubit("th", gen.random_qubit_terms(pr, NQ, pr.randint(1, 3), identity=False), ("JW", False))
    hs -= hs
    ctx.check("qubit_value", refsim.dist(qmatop(hs), np.zeros((2 ** NQ, 2 ** NQ))) < 1e-10, "H -= H on a QubitHamiltonian does not give the zero operator",
              {"terms_after": snap(hs)})
    if all(len(t) >= 2 for t in pool_terms[:2]) and log:
        ctx.nontrivial(("qubit", kinds, sorted(map(repr, pool_terms)), log))
    ctx.sample({"sub": "qubit", "kinds": kinds, "attrs": attrs, "log": log})


def term_commutes(ta, tb):
    k = 0
    db = dict(tb)
    for i, p in ta:
        if i in db and db[i] != p:
            k += 1
    return k % 2 == 0


def run_multiform(case, ctx):
    from tangelo.toolboxes.operators import QubitOperator as TQ
    from tangelo.toolboxes.operators.multiformoperator import MultiformOperator, do_commute
    rng, pr, sd = case_rng(ctx.seed, "C16", "multiform", case["i"])
    n = pr.randint(1, 5)
    style = case["i"] % 3
    if style == 0:
        ta = gen.random_qubit_terms(pr, n, pr.randint(1, 5), complex_coeffs=pr.random() < 0.4)
        tb = gen.random_qubit_terms(pr, n, pr.randint(1, 5), complex_coeffs=pr.random() < 0.4)
    elif style == 1:
        # commuting-heavy family: all-Z / all-X words plus one odd one out
        ta = gen.random_qubit_terms(pr, n, pr.randint(1, 4), paulis="Z")
        tb = gen.random_qubit_terms(pr, n, pr.randint(1, 4), paulis=pr.choice(["Z", "ZX"]))
    else:
        ta = gen.random_qubit_terms(pr, n, pr.randint(2, 5), paulis="XZ")
        tb = gen.random_qubit_terms(pr, n, pr.randint(1, 3), paulis="XYZ", identity=False)
    a, b = gen.to_qubit_operator(ta), gen.to_qubit_operator(tb)
    ta, tb = gen.terms_of(a), gen.terms_of(b)
    if not ta or not tb:
        return
    wit = {"n": n, "A": [[list(map(list, t)), c] for t, c in ta.items()], "B": [[list(map(list, t)), c] for t, c in tb.items()]}
    ma, mb = MultiformOperator.from_qubitop(a, n), MultiformOperator.from_qubitop(b, n)
    sa, sb = snap(a), snap(b)
    prod = ma * mb
    sym = a * b
    sym.compress(abs_tol=1e-12)
    got = {t: c for t, c in prod.terms.items() if abs(c) > 1e-12}
    exp = {t: c for t, c in sym.terms.items() if abs(c) > 1e-12}
    ok = set(got) == set(exp) and all(abs(got[t] - exp[t]) < 1e-9 for t in exp)
    ctx.check("multiform_product", ok and refsim.dist(qmatop(prod, n), qmatop(a, n) @ qmatop(b, n)) < 1e-8,
              "MultiformOperator product differs from the symbolic product", lambda: dict(wit, got=repr(got), expected=repr(exp)))
    ctx.check("qubit_operands_unchanged", snap(a) == sa and snap(b) == sb, "MultiformOperator product modified a source operator", wit)
    # internal representations stay consistent with terms after the product
    rt = MultiformOperator.from_integerop(prod.integer, prod.factors)
    ctx.check("multiform_product", {t: c for t, c in rt.terms.items()} == dict(prod.terms) or
              refsim.dist(qmatop(rt, n), qmatop(prod, n)) < 1e-9, "integer form of a product does not reproduce its terms", wit)
    rb = MultiformOperator.from_binaryop(prod.binary, prod.factors)
    ctx.check("multiform_product", refsim.dist(qmatop(rb, n), qmatop(prod, n)) < 1e-9, "binary form of a product does not reproduce its terms", wit)
    # collapse of a word list with duplicates
    words = np.array([[pr.randint(0, 3) for _ in range(n)] for _ in range(pr.randint(1, 8))], dtype=int)
    dup = words[[pr.randrange(len(words)) for _ in range(pr.randint(1, 6))]]
    allw = np.concatenate([words, dup], axis=0)
    fac = np.array([complex(pr.uniform(-1, 1), pr.choice([0, pr.uniform(-1, 1)])) for _ in range(len(allw))])
    if pr.random() < 0.3:
        fac[-1] = -fac[0] if (allw[-1] == allw[0]).all() else fac[-1]
    uniq, ufac = MultiformOperator.collapse(allw.copy(), fac.copy())
    ref = {}
    for w, f in zip(allw, fac):
        ref[tuple(int(x) for x in w)] = ref.get(tuple(int(x) for x in w), 0) + f
    ref = {k: v for k, v in ref.items() if abs(v) > 0}
    gotc = {tuple(int(x) for x in w): f for w, f in zip(uniq, ufac)}
    okc = len(gotc) == len(uniq) and set(gotc) == set(ref) and all(abs(gotc[k] - ref[k]) < 1e-12 for k in ref)
    ctx.check("multiform_collapse", okc, "collapse() does not sum duplicate Pauli words correctly",
              lambda: {"words": allw, "factors": fac, "got": repr(gotc), "expected": repr(ref)})
    # commutation
    res = do_commute(ma, mb, term_resolved=True)
    exp_res = [all(term_commutes(x, y) for y in tb) for x in ma.terms]
    ctx.check("do_commute_term_resolved", list(map(bool, res)) == exp_res,
              "do_commute(term_resolved=True)[i] is not 'term i commutes with every term of B'", lambda: dict(wit, got=list(map(bool, res)), expected=exp_res))
    r = do_commute(ma, mb)
    A, B = qmatop(a, n), qmatop(b, n)
    comm_zero = refsim.dist(A @ B, B @ A) < 1e-9
    termwise = all(exp_res)
    ok = True
    if r and not comm_zero:
        ok = False
    if termwise and not r:
        ok = False
    ctx.check("do_commute", ok, f"do_commute returned {bool(r)} but commutator_is_zero={comm_zero}, termwise_commuting={termwise}",
              lambda: dict(wit, returned=bool(r), commutator_is_zero=comm_zero, termwise=termwise))
    if len(ta) >= 2 and len(tb) >= 2:
        ctx.nontrivial(("multiform", n, sorted(map(repr, ta.items())), sorted(map(repr, tb.items()))))
    ctx.sample({"sub": "multiform", "n": n, "A_terms": len(ta), "B_terms": len(tb)})


def run_multiform_long(case, ctx):
    """Long word lists (row counts around and beyond 2**15 / 2**16, what the tapering rotation of a few-hundred-term Hamiltonian produces):
    collapse() and the product against a dictionary sum / the symbolic product."""
    from tangelo.toolboxes.operators.multiformoperator import MultiformOperator
    rng, pr, sd = case_rng(ctx.seed, "C16", "multiform_long", case["i"])
    n = pr.randint(5, 9)
    rows = pr.choice([32767, 32768, 32769, 40000, 65535, 65537, 70001])
    n_distinct = pr.randint(200, 900)
    words = rng.integers(0, 4, size=(n_distinct, n))
    allw = words[rng.integers(0, n_distinct, size=rows)]
    fac = rng.uniform(-1, 1, size=rows) + 1j * rng.uniform(-1, 1, size=rows) * (rng.random(rows) < 0.3)
    uniq, ufac = MultiformOperator.collapse(allw.copy(), fac.copy())
    ref = {}
    for w, f in zip(map(tuple, allw.tolist()), fac.tolist()):
        ref[w] = ref.get(w, 0) + f
    gotc = {tuple(int(x) for x in w): f for w, f in zip(uniq, ufac)}
    okc = len(gotc) == len(uniq) and set(gotc) == set(ref) and all(abs(gotc[k] - ref[k]) < 1e-9 for k in ref)
    ctx.tab("collapse_rows", f"{rows} rows")
    ctx.check("multiform_collapse", okc, f"collapse() of {rows} rows ({len(ref)} distinct words on {n} qubits) does not sum duplicate Pauli words correctly",
              lambda: {"rows": rows, "n_qubits": n, "case_seed": sd, "n_distinct": len(ref), "n_returned": len(uniq),
                       "worst": max((abs(gotc.get(k, 0) - ref[k]) for k in ref), default=0)})
    # product of two operators with about 190 x 190 > 2**15 term pairs
    ka, kb = pr.randint(182, 200), pr.randint(182, 200)
    ta = gen.random_qubit_terms(pr, n, ka, complex_coeffs=True)
    tb = gen.random_qubit_terms(pr, n, kb)
    a, b = gen.to_qubit_operator(ta), gen.to_qubit_operator(tb)
    ma, mb = MultiformOperator.from_qubitop(a, n), MultiformOperator.from_qubitop(b, n)
    prod = ma * mb
    sym = a * b
    sym.compress(abs_tol=1e-12)
    got = {t: c for t, c in prod.terms.items() if abs(c) > 1e-10}
    exp = {t: c for t, c in sym.terms.items() if abs(c) > 1e-10}
    ok = set(got) == set(exp) and all(abs(got[t] - exp[t]) < 1e-8 for t in exp)
    ctx.tab("product_term_pairs", f"{'>' if len(a.terms) * len(b.terms) > 32767 else '<='} 2**15 pairs")
    ctx.check("multiform_product", ok, f"MultiformOperator product of {len(a.terms)} x {len(b.terms)} terms on {n} qubits differs from the symbolic product",
              lambda: {"n_qubits": n, "case_seed": sd, "terms_a": len(a.terms), "terms_b": len(b.terms), "n_got": len(got), "n_expected": len(exp)})
    ctx.nontrivial(("multiform_long", n, rows, case["i"]))


def run_multiform_wide(case, ctx):
    """Array form on wide registers (20..70 qubits, sparse words): product, collapse and commutation against the symbolic algebra."""
    from tangelo.toolboxes.operators import QubitOperator as TQ
    from tangelo.toolboxes.operators.multiformoperator import MultiformOperator, do_commute
    rng, pr, sd = case_rng(ctx.seed, "C16", "multiform_wide", case["i"])
    n = pr.choice([20, 31, 32, 33, 34, 40, 63, 64, 65, 70])

    def sparse_terms(k):
        out = {}
        for _ in range(k):
            qs = sorted(pr.sample(range(n), pr.randint(1, 4)))
            if pr.random() < 0.5:
                qs = sorted(set(qs) | {pr.choice([0, 1, n - 1, n - 2])})
            t = tuple((q, pr.choice("XYZ")) for q in qs)
            out[t] = pr.uniform(-1, 1) if pr.random() < 0.7 else complex(pr.uniform(-1, 1), pr.uniform(-1, 1))
        return out
    ta, tb = sparse_terms(pr.randint(1, 4)), sparse_terms(pr.randint(1, 4))
    if pr.random() < 0.5:
        # words that agree everywhere except on the lowest-index qubits
        base = list(ta)[0]
        hi = tuple(x for x in base if x[0] >= 2)
        ta[((0, "X"),) + hi] = 0.5
        ta[((0, "Z"),) + hi] = -0.25
        ta[((1, "Y"),) + hi] = 0.75
    a, b = gen.to_qubit_operator(ta), gen.to_qubit_operator(tb)
    ta, tb = gen.terms_of(a), gen.terms_of(b)
    if not ta or not tb:
        return
    wit = {"n": n, "A": [[list(map(list, t)), c] for t, c in ta.items()], "B": [[list(map(list, t)), c] for t, c in tb.items()]}
    ma, mb = MultiformOperator.from_qubitop(a, n), MultiformOperator.from_qubitop(b, n)
    prod = ma * mb
    sym = a * b
    sym.compress(abs_tol=1e-12)
    got = {t: c for t, c in prod.terms.items() if abs(c) > 1e-12}
    exp = {t: c for t, c in sym.terms.items() if abs(c) > 1e-12}
    ok = set(got) == set(exp) and all(abs(got[t] - exp[t]) < 1e-9 for t in exp)
    ctx.check("multiform_product", ok, f"MultiformOperator product on {n} qubits differs from the symbolic product",
              lambda: dict(wit, got=repr(got)[:1500], expected=repr(exp)[:1500]))
    # collapse: duplicates plus words differing only on low / only on high qubits
    words = np.zeros((pr.randint(2, 6), n), dtype=int)
    for w in words:
        for q in pr.sample(range(n), pr.randint(1, 4)):
            w[q] = pr.randint(1, 3)
    extra = words[[pr.randrange(len(words)) for _ in range(pr.randint(1, 4))]].copy()
    for w in extra:
        if pr.random() < 0.6:
            q = pr.choice([0, 1, 2, n - 1])
            w[q] = (w[q] + pr.randint(1, 3)) % 4      # a different word on one qubit only
    allw = np.concatenate([words, extra], axis=0)
    fac = np.array([complex(pr.uniform(-1, 1), pr.choice([0, pr.uniform(-1, 1)])) for _ in range(len(allw))])
    uniq, ufac = MultiformOperator.collapse(allw.copy(), fac.copy())
    ref = {}
    for w, f in zip(allw, fac):
        ref[tuple(int(x) for x in w)] = ref.get(tuple(int(x) for x in w), 0) + f
    ref = {k: v for k, v in ref.items() if abs(v) > 0}
    gotc = {tuple(int(x) for x in w): f for w, f in zip(uniq, ufac)}
    okc = len(gotc) == len(uniq) and set(gotc) == set(ref) and all(abs(gotc[k] - ref[k]) < 1e-12 for k in ref)
    ctx.check("multiform_collapse", okc, f"collapse() on {n}-qubit words does not sum exactly the duplicate Pauli words",
              lambda: {"n": n, "n_words_in": len(allw), "n_words_out": len(uniq), "expected_out": len(ref)})
    res = do_commute(ma, mb, term_resolved=True)
    exp_res = [all(term_commutes(x, y) for y in tb) for x in ma.terms]
    ctx.check("do_commute_term_resolved", list(map(bool, res)) == exp_res,
              f"do_commute(term_resolved=True) on {n} qubits differs from the word-by-word rule", lambda: dict(wit, got=list(map(bool, res)), expected=exp_res))
    ctx.tab("multiform_width", str(n))
    ctx.nontrivial(("multiform_wide", n, case["i"]))


def run_multiform_history(case, ctx):
    """A MultiformOperator that is modified through the symbolic in-place operations it inherits, re-synchronised with compress(), and
    then used in array-form products / commutation tests.  After every compress() the array forms must describe the same operator as
    the terms, and the product must be the matrix product."""
    from tangelo.toolboxes.operators import QubitOperator as TQ
    from tangelo.toolboxes.operators.multiformoperator import MultiformOperator, do_commute
    rng, pr, sd = case_rng(ctx.seed, "C16", "multiform_history", case["i"])
    n = pr.randint(2, 5)
    ta = gen.random_qubit_terms(pr, n, pr.randint(2, 5), complex_coeffs=pr.random() < 0.3, identity=False)
    tc = gen.random_qubit_terms(pr, n, pr.randint(1, 4), complex_coeffs=False)
    qa, qc = gen.to_qubit_operator(ta), gen.to_qubit_operator(tc)
    if not qa.terms or not qc.terms:
        return
    a = MultiformOperator.from_qubitop(qa, n)
    c = MultiformOperator.from_qubitop(qc, n)
    shadow = qmatop(qa, n)
    C = qmatop(qc, n)
    log = [["init", [[list(map(list, t)), v] for t, v in gen.terms_of(qa).items()]]]
    for _ in range(pr.randint(2, 6)):
        op = pr.choice(["imul_word", "swap_words", "scale", "iadd"])
        if op == "imul_word":
            w = tuple((q, pr.choice("XYZ")) for q in sorted(pr.sample(range(n), pr.randint(1, n))))
            a *= MultiformOperator.from_qubitop(TQ(w, 1.0), n)
            shadow = shadow @ refsim.pauli_word_matrix(w, n)
            log.append(["*= word", list(map(list, w))])
        elif op == "swap_words":
            # remove one word, add another one: the number of terms and of qubits stays the same
            old = pr.choice(sorted(a.terms))
            new = tuple((q, pr.choice("XYZ")) for q in sorted(pr.sample(range(n), pr.randint(1, n))))
            if new in a.terms or not old:
                continue
            co = a.terms[old]
            a -= MultiformOperator.from_qubitop(TQ(old, co), n)
            a += MultiformOperator.from_qubitop(TQ(new, 0.5), n)
            shadow = shadow - co * refsim.pauli_word_matrix(old, n) + 0.5 * refsim.pauli_word_matrix(new, n)
            log.append(["-= word; += word", list(map(list, old)), list(map(list, new))])
        elif op == "scale":
            f = pr.choice([2.0, -0.5, 1.5])
            a *= f
            shadow = f * shadow
            log.append(["*= scalar", f])
        else:
            extra = gen.to_qubit_operator(gen.random_qubit_terms(pr, n, pr.randint(1, 2), identity=False))
            a += MultiformOperator.from_qubitop(extra, n)
            shadow = shadow + qmatop(extra, n)
            log.append(["+= operator", [[list(map(list, t)), v] for t, v in gen.terms_of(extra).items()]])
        a.compress(n_qubits=n) if pr.random() < 0.5 else a.compress()
        log.append(["compress"])
        if not a.terms or a.n_qubits != n:
            break
        wit = lambda: {"n": n, "log": log, "C": [[list(map(list, t)), v] for t, v in gen.terms_of(qc).items()]}
        ok_terms = refsim.dist(qmatop(a, n), shadow) < 1e-8
        rt = MultiformOperator.from_integerop(a.integer, a.factors)
        ok_arrays = refsim.dist(qmatop(rt, n), shadow) < 1e-8
        ctx.check("multiform_history", ok_terms and ok_arrays,
                  "after in-place symbolic operations and compress() the array form (integer words x factors) is not the operator the terms describe",
                  lambda: dict(wit(), terms_ok=ok_terms, arrays_ok=ok_arrays))
        left = pr.random() < 0.5
        prod = (a * c) if left else (c * a)
        expm = shadow @ C if left else C @ shadow
        ctx.check("multiform_product", refsim.dist(qmatop(prod, n), expm) < 1e-8,
                  "array-form product after in-place symbolic operations + compress() is not the matrix product", lambda: dict(wit(), a_on_the_left=left))
        res = do_commute(a, c, term_resolved=True)
        exp_res = [all(term_commutes(x, y) for y in c.terms) for x in a.terms]
        ctx.check("do_commute_term_resolved", list(map(bool, res)) == exp_res,
                  "do_commute(term_resolved=True) after in-place symbolic operations + compress() differs from the word-by-word rule", wit)
        if not (ok_terms and ok_arrays):
            break
    ctx.nontrivial(("multiform_history", n, repr(log)))
    ctx.sample({"sub": "multiform_history", "n": n, "steps": len(log)})


def run_repo_tests(case, ctx):
    """The repository's own operator / ansatz tests as an additional workload for the operand-snapshot monitors."""
    from vlib.harness import run_repo_tests_under_monitors
    if case["tier"] == "quick":
        paths = ["tangelo/toolboxes/operators/tests/test_operators.py", "tangelo/toolboxes/ansatz_generator/tests/test_penalty_terms.py",
                 "tangelo/toolboxes/ansatz_generator/tests/test_fermionic_operators.py"]
        workers = 1
    else:
        paths = ["tangelo/toolboxes/operators/tests", "tangelo/toolboxes/ansatz_generator/tests", "tangelo/toolboxes/qubit_mappings/tests"]
        workers = 6
    n = run_repo_tests_under_monitors(ctx, paths, "live_", workers=workers, only=("FermionOperator", "QubitHamiltonian"))
    ctx.nontrivial(("repo_tests", tuple(paths)))
    ctx.sample({"sub": "repo_tests", "paths": paths, "monitor_observations": n})


def run_case(case, ctx):
    {"fermion": run_fermion, "qubit": run_qubit, "multiform": run_multiform, "multiform_wide": run_multiform_wide, "multiform_long": run_multiform_long, "multiform_history": run_multiform_history, "repo_tests": run_repo_tests}[case["sub"]](case, ctx)
