"""C05 - reference-state circuits encode the requested occupations.

Monitor shape: exhaustive agreement monitor between the state encoder and the operator encoder.
For every occupation vector (exhaustively for small registers) the circuit produced by the real
code must consist of X gates only, and the encoded number operator a_i^dag a_i of every
spin-orbital (produced by the real operator encoder with the matching electron number / spin)
must have expectation exactly v_i on the prepared basis state (own Z-string evaluator).
"""
import itertools

import numpy as np

from vlib.harness import case_rng

PROPERTY = "C05"
RULE = ("exhaustive enumeration: all 2^n occupation vectors for n in {2,4,6,8} (thorough: 10,12) x encodings JW/BK/scBK/JKMN x "
        "both orderings through get_mapped_vector+vector_to_circuit, and all admissible (n_spinorbitals, n_electrons, spin) incl. "
        "negative spin and spin=None through get_vector/get_reference_circuit. One evaluation = one (vector, spin-orbital) "
        "expectation. distinct = (n, mapping, ordering, vector); non-trivial = vector with >= 1 occupied and >= 1 empty orbital")
ASSUMPTIONS = ["the operator encoder (fermion_to_qubit_mapping) is taken as given - its faithfulness is C03's subject; C05 is the agreement "
               "between state encoder and operator encoder", "basis-state expectation by an own Z-string evaluator"]
ANCHORS = [
    ("tangelo/toolboxes/qubit_mappings/statevector_mapping.py", "get_vector", "alpha/beta filling from electron number and spin"),
    ("tangelo/toolboxes/qubit_mappings/statevector_mapping.py", "do_bk_transform,do_scbk_transform,do_jkmn_transform", "BK encoder matrix, scBK construction and qubit deletion"),
    ("tangelo/toolboxes/qubit_mappings/jkmn.py", "jkmn_prep_vector", "JKMN X/Y support"),
    ("tangelo/toolboxes/qubit_mappings/statevector_mapping.py", "get_mapped_vector", "ordering conversion and dispatch"),
    ("tangelo/toolboxes/qubit_mappings/statevector_mapping.py", "vector_to_circuit", "vector -> X gates"),
]
REQUIRED = {"supplied_vector_unchanged": 300, "occupation_of_mapped_vector": 5000, "reference_circuit_occupation": 1000, "x_gates_only": 500}
BUDGET = {"quick": 240, "thorough": 2400}
EXHAUSTIVE = True
MAPPINGS = ["JW", "BK", "SCBK", "JKMN"]


def cases(tier, seed):
    ns = [2, 4, 6, 8] if tier == "quick" else [2, 4, 6, 8, 10, 12, 14]
    out = []
    for n in ns:
        for m in MAPPINGS:
            if m == "SCBK" and n < 4:
                continue
            for utd in (False, True):
                nchunks = 1 if n <= 8 else {10: 4, 12: 16, 14: 64}[n]
                for ch in range(nchunks):
                    out.append({"sub": "vectors", "n": n, "mapping": m, "utd": utd, "chunk": ch, "nchunks": nchunks})
    for n in ([2, 4, 6, 8] if tier == "quick" else [2, 4, 6, 8, 10, 12, 14, 16, 18, 20]):
        for m in MAPPINGS:
            if m == "SCBK" and n < 4:
                continue
            out.append({"sub": "reference", "n": n, "mapping": m})
    for n in (2, 4, 6, 8):
        for i in range(4 if tier == "quick" else 200):
            out.append({"sub": "reuse", "n": n, "i": i})
    return out


def basis_expectation(qop, bits):
    e = 0.0
    for term, c in qop.terms.items():
        sgn = 1
        for idx, p in term:
            if p != "Z":
                sgn = 0
                break
            if bits[idx]:
                sgn = -sgn
        e += complex(c).real * sgn if sgn else 0.0
        if sgn and abs(complex(c).imag) > 1e-12:
            return complex("nan")
    return e


def circuit_bits(circ, n_expected):
    """(bits, only X gates?)"""
    bits = [0] * circ.width
    only_x = True
    for g in circ:
        if g.name != "X" or g.control is not None:
            only_x = False
        else:
            bits[g.target[0]] ^= 1
    return bits, only_x


_numop_cache = {}


def number_op(i, mapping, n, ne, utd, spin):
    from tangelo.toolboxes.operators import FermionOperator
    from tangelo.toolboxes.qubit_mappings.mapping_transform import fermion_to_qubit_mapping
    key = (i, mapping, n, utd) + ((ne % 2, ((ne // 2 + spin // 2 + ne % 2) % 2)) if mapping == "SCBK" else ())
    if key not in _numop_cache:
        _numop_cache[key] = fermion_to_qubit_mapping(FermionOperator(((i, 1), (i, 0))), mapping, n_spinorbitals=n, n_electrons=ne,
                                                     up_then_down=utd, spin=spin)
    return _numop_cache[key]


def check_vector(ctx, vec, mapping, utd, sub, circ=None, extra=None, supplied=None):
    import warnings
    from tangelo.toolboxes.qubit_mappings.statevector_mapping import get_mapped_vector, vector_to_circuit
    from tangelo.toolboxes.qubit_mappings.mapping_transform import get_qubit_number
    n = len(vec)
    ne = int(sum(vec))
    spin = int(sum(vec[0::2]) - sum(vec[1::2]))
    if circ is None:
        with warnings.catch_warnings():
            warnings.simplefilter("ignore")
            mv = get_mapped_vector(np.array(vec, dtype=int) if supplied is None else supplied, mapping, utd)
        circ = vector_to_circuit(mv)
    bits, only_x = circuit_bits(circ, n)
    nq = get_qubit_number(mapping, n)
    ctx.check("x_gates_only", only_x and circ.width == nq, "reference circuit is not a product of X gates on the encoding's register",
              lambda: {"vector": list(vec), "mapping": mapping, "up_then_down": utd, "width": circ.width, "expected_width": nq,
                       "gates": [str(g) for g in circ], "extra": extra})
    # for scBK the operator encoder always works in the up-then-down basis; orbital labels i are the caller's (interleaved) labels
    for i in range(n):
        qop = number_op(i, mapping, n, ne, utd, spin)
        e = basis_expectation(qop, bits)
        ctx.check(sub, abs(e - vec[i]) < 1e-12,
                  f"encoded occupation number of spin-orbital {i} is {e} on the prepared state, requested {vec[i]}",
                  lambda: {"vector": list(vec), "mapping": mapping, "up_then_down": utd, "orbital": i, "expectation": e,
                           "prepared_bits": bits, "extra": extra})
    if 0 < ne < n:
        ctx.nontrivial((n, mapping, utd, tuple(vec)))


def run_vectors(case, ctx):
    n, mapping, utd = case["n"], case["mapping"], case["utd"]
    allv = list(itertools.product((0, 1), repeat=n))
    mine = [v for k, v in enumerate(allv) if k % case["nchunks"] == case["chunk"]]
    for v in mine:
        check_vector(ctx, v, mapping, utd, "occupation_of_mapped_vector")
    ctx.sample({"n": n, "mapping": mapping, "up_then_down": utd, "vectors": len(mine), "example": list(mine[len(mine) // 3])})
    ctx.tab("n_x_mapping", f"{n}|{mapping}|{utd}", len(mine))


def run_reference(case, ctx):
    import warnings
    from tangelo.toolboxes.qubit_mappings.statevector_mapping import get_reference_circuit, get_vector
    n, mapping = case["n"], case["mapping"]
    norb = n // 2
    for ne in range(0, n + 1):
        spins = [None] + [s for s in range(-ne, ne + 1) if (ne - s) % 2 == 0]
        for spin in spins:
            if spin is None:
                na, nb = (ne + 1) // 2, ne // 2
            else:
                na, nb = (ne + spin) // 2, (ne - spin) // 2
            if na > norb or nb > norb or na < 0 or nb < 0:
                continue
            want = [0] * n
            for k in range(na):
                want[2 * k] = 1
            for k in range(nb):
                want[2 * k + 1] = 1
            for utd in (False, True):
                with warnings.catch_warnings():
                    warnings.simplefilter("ignore")
                    circ = get_reference_circuit(n, ne, mapping, up_then_down=utd, spin=spin)
                check_vector(ctx, want, mapping, utd, "reference_circuit_occupation", circ=circ,
                             extra={"n_spinorbitals": n, "n_electrons": ne, "spin": spin})
                ctx.tab("reference_triples", f"{mapping}", 1)


def run_reuse(case, ctx):
    """The same user-supplied object (list, tuple or numpy array) is encoded several times under different encodings / orderings:
    every encoding must prepare the occupations the user supplied, and the supplied object must not be modified."""
    from vlib.harness import case_rng
    rng, pr, s = case_rng(ctx.seed, "C05", "reuse", case["n"], case["i"])
    n = case["n"]
    for _ in range(12):
        want = tuple(pr.randint(0, 1) for _ in range(n))
        form = pr.choice(["ndarray_int", "ndarray_int", "ndarray_float", "list", "tuple"])
        supplied = {"ndarray_int": lambda: np.array(want, dtype=int), "ndarray_float": lambda: np.array(want, dtype=float),
                    "list": lambda: list(want), "tuple": lambda: tuple(want)}[form]()
        seq = [(m, u) for m in MAPPINGS for u in (False, True) if not (m == "SCBK" and n < 4)]
        pr.shuffle(seq)
        for k, (mapping, utd) in enumerate(seq[:5]):
            check_vector(ctx, want, mapping, utd, "occupation_of_mapped_vector", supplied=supplied,
                         extra={"supplied_as": form, "encoding_number_on_same_object": k, "sequence": seq[:k + 1]})
            same = tuple(int(x) for x in supplied) == want
            ctx.check("supplied_vector_unchanged", same, "get_mapped_vector modified the occupation vector supplied by the caller",
                      lambda: {"requested": list(want), "now": [int(x) for x in supplied], "supplied_as": form, "sequence": seq[:k + 1]})
            if not same:
                break
    ctx.tab("reuse_n", str(n))


def run_case(case, ctx):
    {"vectors": run_vectors, "reference": run_reference, "reuse": run_reuse}[case["sub"]](case, ctx)
